/-
Model of the candidate search of `MergeVerts` (/repo/src/boolean2.cpp:325-400): the pairs of
vertices whose `eps`-padded boxes overlap.  Core Lean only.  Coordinates `Int`,
`thresh = 2 * eps`.  The candidate list is internal to `MergeVerts` (it is not returned), so
this model is tied to the C++ only through the result oracle of harness/c14_broad2.cpp.
-/
import MV.Model.Broad2

namespace MV.Broad2

def ptX (pts : Array (Int × Int)) (i : Nat) : Int := (pts.getD i (0, 0)).1
def ptY (pts : Array (Int × Int)) (i : Nat) : Int := (pts.getD i (0, 0)).2

/-- `std::fabs` / `la::abs` -/
def iabs (d : Int) : Int := if d < 0 then -d else d

/-- the brute-force branch `n < 32`, boolean2.cpp:336-347 -/
def mergeBrute (pts : Array (Int × Int)) (thresh : Int) : List (Nat × Nat) :=
  (List.range pts.size).flatMap fun i =>
    ((List.range' (i + 1) (pts.size - (i + 1))).filter fun j =>
      decide (iabs (ptX pts i - ptX pts j) ≤ thresh) &&
      decide (iabs (ptY pts i - ptY pts j) ≤ thresh)).map fun j => (i, j)

/-- the inner loop, boolean2.cpp:388-397 (serial) / 368-377 (parallel), `ai = idx[i]` -/
def mergeInner (pts : Array (Int × Int)) (thresh : Int) (ai : Nat) : List Nat → List (Nat × Nat)
  | [] => []
  | bi :: rest =>
    if ptX pts bi - ptX pts ai > thresh then []                                      -- break
    else if iabs (ptY pts bi - ptY pts ai) > thresh then mergeInner pts thresh ai rest  -- continue
    else (Min.min ai bi, Max.max ai bi) :: mergeInner pts thresh ai rest

def mergeOuter (pts : Array (Int × Int)) (thresh : Int) : List Nat → List (Nat × Nat)
  | [] => []
  | ai :: rest => mergeInner pts thresh ai rest ++ mergeOuter pts thresh rest

/-- `idx`, boolean2.cpp:351-354: stable sort of `0 … n-1` by `x` -/
def mergeOrder (pts : Array (Int × Int)) : List Nat :=
  stableSort (fun a b => decide (ptX pts a < ptX pts b)) (List.range pts.size)

/-- the candidate `pairs` of `MergeVerts` (sorted at the end: boolean2.cpp:399; in the parallel
branch the per-thread buffers are concatenated in any order before the sort) -/
def mergeCandidates (pts : Array (Int × Int)) (thresh : Int) : List (Nat × Nat) :=
  if pts.size < 32 then mergeBrute pts thresh
  else (mergeOuter pts thresh (mergeOrder pts)).mergeSort pairLe

end MV.Broad2
