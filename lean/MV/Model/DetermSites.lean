/-
C04 — REVIEWED classification of every schedule-sensitive site of the library.

`MV.Gen.Atomics.sites` is regenerated from src/*.cpp, src/*.h on every run by
tools/extract_atomics.py.  This file says, per site, WHY its effect on the exported result does
not depend on the schedule, i.e. which theorem (or which other property's machinery) carries it,
and the side condition under which that argument applies.  `siteOk` is decidable; the theorem
`MV.Determ.C04.all_sites_classified` (Props/C04.lean) is `decide` over the generated table, so a
new site, a site whose operand changed, a site moved to another function, or a loop whose policy
changed (e.g. a floating accumulation made parallel again) breaks the proof gate.
-/
import MV.Gen.Atomics
namespace MV.Determ.Sites
open MV.Gen.Atomics

inductive Class where
  /-- integer `fetch_add` whose returned value is not used: final counters are a function of the
  multiset of increments (`atomic_int_counters_order_free`) -/
  | intCounter
  /-- integer `fetch_add` whose returned value decides "who arrived last"; the work done by the last
  arrival is a function of the set of arrivals only (`MV.Collider.boxes_are_unions` for every
  arrival order, C14) -/
  | arrivalCounter
  /-- integer cursor handing out slots; the filled array is schedule dependent as a sequence but
  the same multiset, and is followed by the named normaliser (sort with an injective key /
  per-face reassembly / Morton sort): `sort_perm_canonical`, `slot_alloc_multiset` -/
  | slotCursor
  /-- like `slotCursor` but with NO normaliser behind it: correct only in a sequential loop -/
  | seqOnlyCursor
  /-- floating-point accumulation: addition of doubles is not associative, so there is no
  order-freeness theorem; correct only when every loop running it is sequential -/
  | floatAccumSeqOnly
  /-- min/max by compare-exchange: final value = min/max of the offered multiset
  (`reduce_tree_irrelevant` instance: min/max are associative, commutative, idempotent) -/
  | casMinMax
  /-- per-worker storage combined afterwards and then normalised (sorted / or'ed / min'ed):
  `collectThenSort_schedule_free`, `flagStore_eq_seq`, `reduce_tree_irrelevant` -/
  | combineThenNormalise
  /-- per-worker scratch object whose content never reaches the result (triangulator workspace,
  visited flags used only to skip work) -/
  | scratch
  /-- concurrently filled map, every bucket stable-sorted by an injective key afterwards -/
  | mapThenSort
  /-- task_group: tasks race, results are keyed (serial numbers / disjoint output ranges):
  `batchBoolean_serial_deterministic` -/
  | keyedTasks
  /-- lock-free container, linearizability proved in C13c for every interleaving -/
  | container
  /-- progress / cancellation counters: not part of any exported value (C15) -/
  | progress
  /-- reference counts, global id allocation, diagnostics: not schedule sensitive within one call
  (C05 / C06 / C07 treat them) -/
  | bookkeeping
  /-- the definition of a primitive itself (utils.h `AtomicAdd`) -/
  | primitiveDef
  deriving DecidableEq, Repr

open Class

/-- key = (file, scope, kind, operand) -/
def reviewed : List ((String × String × String × String) × Class) := [
  (("boolean2.cpp", "MergeVerts", "combinable", "std::vector<std::pair<int, int>> tls"), combineThenNormalise),
  (("boolean2.cpp", "BuildIncidenceLists", "combinable", "std::vector<EdgeVertHit> tls"), combineThenNormalise),
  (("boolean2.cpp", "PairsRecorder", "combinable", "Local tls"), combineThenNormalise),
  (("boolean3.cpp", "Kernel12Recorder", "combinable", "Intersections store"), combineThenNormalise),
  (("boolean3.cpp", "Winding03_", "combinable", "std::unordered_set<size_t> componentsShared"), combineThenNormalise),
  (("boolean_result.cpp", "CountNewVerts", "atomicAdd", "countQ[faceQ] , inclusion"), intCounter),
  (("boolean_result.cpp", "CountNewVerts", "atomicAdd", "countP[edgeP / 3] , inclusion"), intCounter),
  (("boolean_result.cpp", "CountNewVerts", "atomicAdd", "countP[halfedges.Pair(edgeP) / 3] , inclusion"), intCounter),
  (("boolean_result.cpp", "DuplicateHalfedges", "atomicAdd", "facePtr[newFace] , 1"), slotCursor),
  (("boolean_result.cpp", "DuplicateHalfedges", "atomicAdd", "facePtr[faceRight] , 1"), slotCursor),
  (("boolean_result.cpp", "Boolean3::Result", "fetchAdd", "ctx->donePhases"), progress),
  (("boolean_result.cpp", "Boolean3::Result", "fetchAdd", "ctx_->donePhases"), progress),
  (("boolean_result.cpp", "Boolean3::Result", "concurrentMap", "int, std::vector<EdgePos> edgesP, edgesQ"), mapThenSort),
  (("boolean_result.cpp", "Boolean3::Result", "concurrentMap", "std::pair<int, int>, std::vector<EdgePos> edgesNew"), mapThenSort),
  (("collider.h", "BuildInternalBoxes", "atomicAdd", "counter_[internal] , 1"), arrivalCounter),
  (("csg_tree.cpp", "SimpleBoolean", "fetchAdd", "ctx->doneBooleans"), progress),
  (("csg_tree.cpp", "BatchBoolean", "taskGroup", "group"), keyedTasks),
  (("csg_tree.cpp", "BatchUnion", "fetchAdd", "ctx->doneBooleans"), progress),
  (("csg_tree.cpp", "BatchUnion", "fetchAdd", "ctx->donePhases"), progress),
  (("disjoint_sets.h", "DisjointSets", "cas", "mData[id1]"), container),
  (("disjoint_sets.h", "DisjointSets", "cas", "mData[id2]"), container),
  (("disjoint_sets.h", "DisjointSets", "cas", "mData[id]"), container),
  (("edge_op.cpp", "FlagStore", "combinable", "Vec<size_t> store"), combineThenNormalise),
  (("edge_op.cpp", "Manifold::Impl::SplitPinchedVerts", "combinable", "std::vector<bool> store"), scratch),
  (("edge_op.cpp", "Manifold::Impl::SplitPinchedVerts", "cas", "largestEdge[vert]"), casMinMax),
  (("edge_op.cpp", "Manifold::Impl::DedupeEdges", "combinable", "std::vector<bool> store"), scratch),
  (("execution_impl.cpp", "BeginLocalPhaseTiming", "fetchAdd", "counter"), bookkeeping),
  (("face_op.cpp", "Manifold::Impl::Face2Tri", "taskGroup", "group"), keyedTasks),
  (("hashtable.h", "AtomicCAS", "cas", "tar"), container),
  (("hashtable.h", "HashTableD", "fetchAdd", "used_"), container),
  (("impl.cpp", "Manifold::Impl::ReserveIDs", "fetchAdd", "Manifold::Impl::meshIDCounter_"), bookkeeping),
  (("impl.cpp", "Manifold::Impl::CreateHalfedges", "atomicAdd", "offsets[std::min(v0, v1) + offset] , 1"), intCounter),
  (("impl.cpp", "Manifold::Impl::CreateHalfedges", "atomicAdd", "offsets[start + offset] , 1"), slotCursor),
  (("impl.cpp", "Manifold::Impl::CalculateVertNormals", "cas", "vertHalfedgeMap[vert]"), casMinMax),
  (("parallel.h", "histogram", "combinable", "H store"), combineThenNormalise),
  (("polygon.cpp", "PrintFailure", "fetchAdd", "(numFailures"), bookkeeping),
  (("polygon_internal.h", "PolygonTriangulatorStore", "combinable", "PolygonTriangulator store_"), scratch),
  (("properties.cpp", "CurvatureAngles", "atomicAdd", "meanCurvature[startVert] , dihedral"), floatAccumSeqOnly),
  (("properties.cpp", "CurvatureAngles", "atomicAdd", "meanCurvature[endVert] , dihedral"), floatAccumSeqOnly),
  (("properties.cpp", "CurvatureAngles", "atomicAdd", "degree[startVert] , 1.0"), floatAccumSeqOnly),
  (("properties.cpp", "CurvatureAngles", "atomicAdd", "gaussianCurvature[vert] , -phi[i]"), floatAccumSeqOnly),
  (("properties.cpp", "CurvatureAngles", "atomicAdd", "area[vert] , area3"), floatAccumSeqOnly),
  (("properties.cpp", "MinDistanceRecorder", "combinable", "double store"), combineThenNormalise),
  (("quickhull.cpp", "QuickHull::buildMesh", "atomicAdd", "counts[mesh.halfedgeToFace[i]] , 1"), seqOnlyCursor),
  (("quickhull.cpp", "QuickHull::buildMesh", "atomicAdd", "j , 3"), seqOnlyCursor),
  (("quickhull.cpp", "QuickHull::buildMesh", "atomicAdd", "counts[halfedges[3 * i].startVert] , 1"), intCounter),
  (("quickhull.cpp", "QuickHull::buildMesh", "atomicAdd", "counts[halfedges[3 * i + 1].startVert] , 1"), intCounter),
  (("quickhull.cpp", "QuickHull::buildMesh", "atomicAdd", "counts[halfedges[3 * i + 2].startVert] , 1"), intCounter),
  (("sdf.cpp", "NearSurface", "atomicAdd", "vertIndex[0] , 1"), slotCursor),
  (("sdf.cpp", "ComputeVerts", "atomicAdd", "vertIndex[0] , 1"), slotCursor),
  (("sdf.cpp", "BuildTris", "atomicAdd", "triIndex[0] , 1"), slotCursor),
  (("utils.h", "AtomicAdd", "cas", "tar"), primitiveDef),
  (("utils.h", "AtomicAdd", "fetchAdd", "int>(target)"), primitiveDef),
  (("vec.h", "Vec", "fetchAdd", "other.count_"), bookkeeping),
  (("vec.h", "Vec", "fetchAdd", "verif::vecEpoch()"), bookkeeping)
]

def siteKey (s : Site) : String × String × String × String := (s.file, s.scope, s.kind, s.operand)

def classify (s : Site) : Option Class := (reviewed.find? (fun e => e.1 == siteKey s)).map (·.2)

def seqOnly (s : Site) : Bool := s.policies == ["Seq"]

/-- side condition of a class on the extracted features of the site -/
def sideCond : Class → Site → Bool
  | intCounter, s => s.elem == "int"
  | arrivalCounter, s => s.elem == "int"
  | slotCursor, s => s.elem == "int"
  | seqOnlyCursor, s => seqOnly s
  | floatAccumSeqOnly, s => seqOnly s
  | _, _ => true

/-- independent of the table: an `AtomicAdd` whose element type is not known to be integral is an
accumulation without an order-freeness theorem, so every loop running it must be sequential -/
def floatRule (s : Site) : Bool := !(s.kind == "atomicAdd") || s.elem == "int" || seqOnly s

def siteOk (s : Site) : Bool :=
  floatRule s && (match classify s with | none => false | some c => sideCond c s)

/-- every reviewed entry still names a site of the source (a stale review line is noticed too) -/
def reviewedLive (ss : List Site) : Bool := reviewed.all (fun e => ss.any (fun s => siteKey s == e.1))

end MV.Determ.Sites
