/-
Topological core of the polygon triangulator (/repo/src/polygon.cpp, class `EarClip`;
/repo/src/polygon_internal.h, struct `HalfedgeTriangulation`).  Core Lean only.

All GEOMETRIC decisions of the C++ (which vertex is an ear, which connector a hole is joined
to, which vertices `ClipIfDegenerate` removes, which contour is a hole) are an ORACLE: the
model takes the sequence of list operations (`Op.clip v`, `Op.join s c`) as an argument.

Transliteration table
  Vert{mesh_idx,left,right}      `Vert`  (left/right are indices into `polygon_`, the C++ iterators)
  polygon_                       `State.verts`   (push_back order is preserved)
  result_ (triangles part)       `State.tris`    (emission order)
  PRINT("Topological degenerate") `State.skipped` counts them
  Link                           `linkV`
  Clipped                        `State.clipped`
  ClipEar                        `clipEar`
  JoinPolygons (without the four trailing ClipIfDegenerate calls; those are further `clip` ops)
                                 `joinPolygons`
  Initialize                     `initStateSeq` (push_back + Link, line by line) and its closed form
                                 `initState` (what the lists look like after the loop)
  DEBUG_ASSERT(v->right == v->left) at the end of TriangulatePoly / the early exits of `Loop`
                                 `ringsDone`
  TriangulateConvex              `triangulateConvex`
  HalfedgeTriangulation::{AddHalfedge,AddTriangle,AddContours,Finalize asserts}
                                 `HT.addHalfedge`, `HT.addTriangle`, `HT.addContours`, `HT.finalizeOk`
-/
namespace MV.EarClip

/-! ## chains: the free abelian group on directed edges modulo (a,b) = −(b,a), (a,a) = 0 -/

abbrev Edge := Nat × Nat
abbrev Tri := Nat × Nat × Nat

/-- coefficient of the generator `(a,b)` in the class of the edge list `es`
    (`count (a,b) − count (b,a)`; for `a = b` this is `0`). -/
def net (es : List Edge) (a b : Nat) : Int :=
  (es.count (a, b) : Int) - (es.count (b, a) : Int)

/-- the class of a single edge `(x,y)` evaluated at `(a,b)` -/
def ind (x y a b : Nat) : Int :=
  (if x = a ∧ y = b then 1 else 0) - (if x = b ∧ y = a then 1 else 0)

def triEdgesOf (t : Tri) : List Edge := [(t.1, t.2.1), (t.2.1, t.2.2), (t.2.2, t.1)]
/-- boundary of one triangle -/
def bdTri (t : Tri) (a b : Nat) : Int := net (triEdgesOf t) a b
/-- all directed edges of a triangle list -/
def triEdges (ts : List Tri) : List Edge := ts.flatMap triEdgesOf

/-- edges of one contour, exactly the loop of `AddContours`:
    `start = poly[i]`, `end = poly[i+1 < size ? i+1 : 0]`. -/
def polyEdges (p : List Nat) : List Edge :=
  (List.range p.length).map fun i => (p.getD i 0, p.getD (if i + 1 < p.length then i + 1 else 0) 0)
def contourEdges (polys : List (List Nat)) : List Edge := polys.flatMap polyEdges
/-- boundary of the input contours -/
def bdContours (polys : List (List Nat)) (a b : Nat) : Int := net (contourEdges polys) a b

/-! ## the circular lists -/

structure Vert where
  meshIdx : Nat
  left : Nat
  right : Nat
deriving Repr, DecidableEq, Inhabited

structure State where
  verts : Array Vert
  tris : List Tri
  skipped : Nat
deriving Repr, DecidableEq

def getV (vs : Array Vert) (v : Nat) : Vert := vs.getD v ⟨0, 0, 0⟩

def State.n (s : State) : Nat := s.verts.size
def State.mesh (s : State) (v : Nat) : Nat := (getV s.verts v).meshIdx
def State.L (s : State) (v : Nat) : Nat := (getV s.verts v).left
def State.R (s : State) (v : Nat) : Nat := (getV s.verts v).right

/-- `static bool Clipped(VertItr v) { return v->right->left != v; }` -/
def State.clipped (s : State) (v : Nat) : Bool := s.L (s.R v) != v
def State.live (s : State) (v : Nat) : Prop := s.L (s.R v) = v
instance (s : State) (v : Nat) : Decidable (s.live v) := by unfold State.live; infer_instance

def setLeft (vs : Array Vert) (i x : Nat) : Array Vert :=
  vs.setIfInBounds i { getV vs i with left := x }
def setRight (vs : Array Vert) (i x : Nat) : Array Vert :=
  vs.setIfInBounds i { getV vs i with right := x }

/-- `Link(left, right)`: `left->right = right; right->left = left;` (rightDir is geometry) -/
def linkV (vs : Array Vert) (l r : Nat) : Array Vert := setLeft (setRight vs l r) r l

/-- `ClipEar(ear)`.  `ear`'s own fields never change value in `Link(ear->left, ear->right)`,
    so reading the three mesh indices before or after the `Link` is the same. -/
def clipEar (s : State) (ear : Nat) : State :=
  let l := s.L ear
  let r := s.R ear
  let vs := linkV s.verts l r
  let a := s.mesh l
  let b := s.mesh ear
  let c := s.mesh r
  if a ≠ b ∧ b ≠ c ∧ c ≠ a then
    { verts := vs, tris := s.tris ++ [(a, b, c)], skipped := s.skipped }
  else
    { verts := vs, tris := s.tris, skipped := s.skipped + 1 }

/-- `JoinPolygons(start, connector)` up to (not including) the four `ClipIfDegenerate` calls.
    Statement by statement, in the C++ order (the order matters when the verts are adjacent). -/
def joinPolygons (st : State) (s c : Nat) : State :=
  let vs := st.verts
  let newStart := vs.size
  let vs := vs.push (getV vs s)                    -- polygon_.push_back(*start)
  let newConnector := vs.size
  let vs := vs.push (getV vs c)                    -- polygon_.push_back(*connector)
  let vs := setLeft vs (getV vs s).right newStart  -- start->right->left = newStart
  let vs := setRight vs (getV vs c).left newConnector -- connector->left->right = newConnector
  let vs := linkV vs s c                           -- Link(start, connector)
  let vs := linkV vs newConnector newStart         -- Link(newConnector, newStart)
  { st with verts := vs }

/-- `Initialize`, line by line: for each contour push the first vert (left = right =
    `invalidItr` = `polygon_.begin()` = index 0), then push each next vert and `Link(last,next)`,
    finally `Link(last, first)`.  An empty contour (UB in the C++: `poly.begin()` is
    dereferenced) is skipped. -/
def initPolySeq (vs : Array Vert) (p : List Nat) : Array Vert :=
  match p with
  | [] => vs
  | i0 :: rest =>
    let first := vs.size
    let vs := vs.push ⟨i0, 0, 0⟩
    let (vs, last) := rest.foldl (fun (acc : Array Vert × Nat) i =>
        let next := acc.1.size
        (linkV (acc.1.push ⟨i, 0, 0⟩) acc.2 next, next)) (vs, first)
    linkV vs last first

def initStateSeq (polys : List (List Nat)) : State :=
  { verts := polys.foldl initPolySeq #[], tris := [], skipped := 0 }

/-- closed form of one contour after `Initialize`: vert `base+i` has mesh index `p[i]`,
    `left = base + (i-1 mod k)`, `right = base + (i+1 mod k)`. -/
def initPoly (base : Nat) (p : List Nat) : List Vert :=
  (List.range p.length).map fun i =>
    ⟨p.getD i 0,
     base + (if i = 0 then p.length - 1 else i - 1),
     base + (if i + 1 < p.length then i + 1 else 0)⟩

def initVerts (polys : List (List Nat)) : Array Vert :=
  polys.foldl (fun vs p => vs ++ (initPoly vs.size p).toArray) #[]

/-- state after `Initialize(polys)` (closed form; `initStateSeq` is the literal reading) -/
def initState (polys : List (List Nat)) : State :=
  { verts := initVerts polys, tris := [], skipped := 0 }

/-! ## operations chosen by the geometric oracle -/

inductive Op where
  | clip (v : Nat)
  | join (s c : Nat)
deriving Repr, DecidableEq

def step (st : State) : Op → State
  | .clip v => clipEar st v
  | .join s c => joinPolygons st s c

def run (st : State) (ops : List Op) : State := ops.foldl step st

/-- What the C++ guarantees at each call site.
    `clip v`: `ClipIfDegenerate` tests `!Clipped(ear)` and `ear->left != ear->right`; the main loop
    of `TriangulatePoly` clips `numTri = (#verts of the ring) − 2` times, so the ring has ≥ 3 verts.
    `join s c`: `start` is an unclipped vert of a hole ring, `connector` an unclipped vert of an
    outer ring — different rings, in particular `start->right != connector`. -/
def opOk (st : State) : Op → Bool
  | .clip v => v < st.n && !st.clipped v && st.L v != st.R v
  | .join s c => s < st.n && c < st.n && !st.clipped s && !st.clipped c && st.R s != c

/-- run with the call-site guards checked; `.error k` = position of the first op violating them -/
def runChecked (st : State) (ops : List Op) (k : Nat := 0) : Except Nat State :=
  match ops with
  | [] => .ok st
  | op :: rest => if opOk st op then runChecked (step st op) rest (k + 1) else .error k

/-- every live ring has at most two verts: `v->right == v->left` for every unclipped `v`
    (the exit condition of `Loop` and the final DEBUG_ASSERT of `TriangulatePoly`). -/
def ringsDone (s : State) : Bool :=
  (List.range s.n).all fun v => s.clipped v || s.R v == s.L v

/-- every live ring has exactly two verts -/
def ringsAllTwo (s : State) : Bool :=
  (List.range s.n).all fun v => s.clipped v || (s.R v == s.L v && s.R v != v)

/-- the unclipped verts -/
def liveList (s : State) : List Nat := (List.range s.n).filter fun v => !s.clipped v
/-- all edges of all live rings, in terms of mesh indices: each unclipped vert `v`
    contributes the edge `v → v->right` of the ring it belongs to. -/
def liveEdges (s : State) : List Edge := (liveList s).map fun v => (s.mesh v, s.mesh (s.R v))

/-- the ring through `v` read through `right` pointers (fuel = number of verts) -/
def ringFrom (s : State) (v : Nat) : Nat → Nat → List Nat
  | 0, _ => []
  | f + 1, cur => cur :: (if s.R cur = v then [] else ringFrom s v f (s.R cur))
def ring (s : State) (v : Nat) : List Nat := ringFrom s v s.n v
def ringEdges (s : State) (v : Nat) : List Edge :=
  (ring s v).map fun u => (s.mesh u, s.mesh (s.R u))
/-- boundary of the circular list through `v` -/
def bdRing (s : State) (v : Nat) (a b : Nat) : Int := net (ringEdges s v) a b
/-- one representative (the smallest index) per live ring -/
def ringReps (s : State) : List Nat :=
  (liveList s).filter fun v => (ring s v).all fun u => v ≤ u
def rings (s : State) : List (List Nat) := (ringReps s).map (ring s)
def numRings (s : State) : Nat := (ringReps s).length

/-! ## TriangulateConvex -/

/-- the `while (i + 1 < k)` loop of `TriangulateConvex` for one contour; `fuel ≥ k - i - 1`. -/
def strip (p : List Nat) : Nat → Nat → Nat → Bool → List Tri
  | 0, _, _, _ => []
  | fuel + 1, i, k, right =>
    if i + 1 < k then
      let j := if right then i + 1 else k - 1
      (p.getD i 0, p.getD j 0, p.getD k 0) ::
        (if right then strip p fuel j k (!right) else strip p fuel i j (!right))
    else []

def stripPoly (p : List Nat) : List Tri := strip p p.length 0 (p.length - 1) true
def triangulateConvex (polys : List (List Nat)) : List Tri := polys.flatMap stripPoly

/-! ## HalfedgeTriangulation -/

structure Halfedge where
  startVert : Nat
  endVert : Nat
  paired : Int
deriving Repr, DecidableEq, Inhabited

abbrev Stacks := List (Edge × List Nat)

/-- `edge2halfedge[key]` (empty if absent); head of the list = `.back()` of the C++ vector -/
def stackOf (m : Stacks) (k : Edge) : List Nat :=
  match m.lookup k with
  | some st => st
  | none => []

/-- replace the stack of `k`; an empty stack is erased (`edge2halfedge.erase(reverse)`) -/
def setStack (m : Stacks) (k : Edge) (st : List Nat) : Stacks :=
  let m' := m.filter fun e => e.1 != k
  if st.isEmpty then m' else (k, st) :: m'

structure HT where
  halfedges : Array Halfedge
  stacks : Stacks
deriving Repr

def HT.empty : HT := ⟨#[], []⟩

def getH (hs : Array Halfedge) (i : Nat) : Halfedge := hs.getD i ⟨0, 0, -1⟩

/-- `AddHalfedge(start, end)` -/
def HT.addHalfedge (t : HT) (a b : Nat) : HT :=
  let h := t.halfedges.size
  match stackOf t.stacks (b, a) with
  | p :: rest =>
    -- data.pairedHalfedge = reverse->second.back(); halfedges[pair].pairedHalfedge = halfedge;
    -- pop_back; erase if empty; push_back(data)
    { halfedges := (t.halfedges.setIfInBounds p { getH t.halfedges p with paired := h }).push ⟨a, b, p⟩,
      stacks := setStack t.stacks (b, a) rest }
  | [] =>
    -- edge2halfedge[EdgeKey(start,end)].push_back(halfedge); push_back(data)
    { halfedges := t.halfedges.push ⟨a, b, -1⟩,
      stacks := setStack t.stacks (a, b) (h :: stackOf t.stacks (a, b)) }

def HT.addEdges (t : HT) (es : List Edge) : HT := es.foldl (fun t e => t.addHalfedge e.1 e.2) t

/-- `AddTriangle(first, second, third)` -/
def HT.addTriangle (t : HT) (tr : Tri) : HT :=
  ((t.addHalfedge tr.1 tr.2.1).addHalfedge tr.2.1 tr.2.2).addHalfedge tr.2.2 tr.1

/-- `AddContours(polys)`: the exterior halfedge `(end,start)` of every contour edge -/
def HT.addContours (t : HT) (polys : List (List Nat)) : HT :=
  t.addEdges ((contourEdges polys).map fun e => (e.2, e.1))

def HT.addTriangles (t : HT) (ts : List Tri) : HT := ts.foldl HT.addTriangle t

/-- the debug asserts of `Finalize` -/
def HT.finalizeOk (t : HT) : Bool :=
  t.stacks.isEmpty &&
  (List.range t.halfedges.size).all fun i =>
    let h := getH t.halfedges i
    0 ≤ h.paired && h.paired.toNat < t.halfedges.size &&
    (let q := getH t.halfedges h.paired.toNat
     q.paired == (i : Int) && h.startVert == q.endVert && h.endVert == q.startVert)

/-- the result of the whole call as the C++ stores it: contours first, then triangles -/
def halfedgeTriangulation (polys : List (List Nat)) (ts : List Tri) : HT :=
  (HT.empty.addContours polys).addTriangles ts

/-! ## brute-force checks used by the driver -/

def allEdgeKeys (es : List Edge) : List Edge := es ++ es.map fun e => (e.2, e.1)

/-- `net es₁ = net es₂` on every edge, checked on the finitely many edges that occur -/
def netEqCheck (es₁ es₂ : List Edge) : Bool :=
  (allEdgeKeys (es₁ ++ es₂)).all fun e => net es₁ e.1 e.2 == net es₂ e.1 e.2

end MV.EarClip
