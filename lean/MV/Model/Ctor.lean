/-
Integer / decision-table parts of the constructors and transforms (property C17).  Core only.

  encodeIndex / decodeIndex / gridPow   sdf.cpp:98-128  (EncodeIndex, ComputeGridPow, DecodeIndex)
  sindQ / cosdQ                         include/manifold/common.h:109-133, on arguments 90·k
  segments, setCircularSegments, …      src/manifold.cpp:58-107 (Quality)
  invalid-argument guards               src/constructors.cpp:105-135 (Cube, Cylinder), 171-175 (Sphere),
                                        236-241 (Extrude), 341-343 (Revolve)
-/
namespace MV.Ctor

/-! ## grid index (sdf.cpp) -/

/-- `CeilLog2(value)` of src/hashtable.h: `value <= 1 ? 0 : width - clz(value - 1)` -/
def ceilLog2 (v : Nat) : Nat := if v ≤ 1 then 0 else Nat.log2 (v - 1) + 1

/-- `axisPow(n) = CeilLog2((n + 2) + 1)` of `ComputeGridPow` -/
def gridPow (n : Nat) : Nat := ceilLog2 (n + 2 + 1)

/-- `EncodeIndex(gridPos, gridPow)`: `w | z << 1 | y << (1 + pz) | x << (1 + pz + py)` -/
def encodeIndex (x y z w py pz : Nat) : Nat :=
  w ||| z <<< 1 ||| y <<< (1 + pz) ||| x <<< (1 + pz + py)

/-- `DecodeIndex(idx, gridPow)`; returns `(x, y, z, w)` -/
def decodeIndex (idx px py pz : Nat) : Nat × Nat × Nat × Nat :=
  let w := idx &&& 1
  let idx := idx >>> 1
  let z := idx &&& ((1 <<< pz) - 1)
  let idx := idx >>> pz
  let y := idx &&& ((1 <<< py) - 1)
  let idx := idx >>> py
  let x := idx &&& ((1 <<< px) - 1)
  (x, y, z, w)

/-! ## sind / cosd on multiples of 90 degrees

`sind(x)`: non-finite → NaN; `x < 0` → `-sind(-x)`; `x = remquo(|x|, 90, &quo)`;
`switch (quo % 4) { 0: sin(xr); 1: cos(xr); 2: -sin(xr); 3: -cos(xr) }`; `cosd(x) = sind(x + 90)`.
For `x = 90·k` the remainder is exactly `+0`, so `xr = 0`, and `quo` is congruent to `k` modulo
`2^n`, `n ≥ 3` (C11 7.12.10.3).  The values `sin(0)`, `cos(0)` of libm are parameters `s0 c0`
(exactly `0` and `1` in every libm; the remainder path for other angles is outside the model). -/

/-- the `switch (quo % 4)` for a non-negative argument -/
def quadrant (s0 c0 : Int) (quo : Nat) : Int :=
  match quo % 4 with
  | 0 => s0
  | 1 => c0
  | 2 => -s0
  | _ => -c0

/-- `sind(90·k)`; `quoOf m` is the `quo` that `remquo(90·m, 90, &quo)` reports for `m ≥ 0` -/
def sindQ (s0 c0 : Int) (quoOf : Nat → Nat) (k : Int) : Int :=
  if k < 0 then - quadrant s0 c0 (quoOf (-k).toNat) else quadrant s0 c0 (quoOf k.toNat)

/-- `cosd(90·k) = sind(90·k + 90)` -/
def cosdQ (s0 c0 : Int) (quoOf : Nat → Nat) (k : Int) : Int := sindQ s0 c0 quoOf (k + 1)

/-- exact sine / cosine of `k` quarter turns -/
def sinQuarter (k : Int) : Int := match k % 4 with | 0 => 0 | 1 => 1 | 2 => 0 | _ => -1
def cosQuarter (k : Int) : Int := match k % 4 with | 0 => 1 | 1 => 0 | 2 => -1 | _ => 0

/-- `Rotate(90·ka, 90·kb, 90·kc)` on an integer point: the three `mat3` literals of
`CsgNode::Rotate` (csg_tree.cpp:74-82) with the exact quarter-turn values, applied as
`rZ * (rY * (rX * p))` -/
def rotQuarter (ka kb kc : Int) (p : Int × Int × Int) : Int × Int × Int :=
  let sx := sinQuarter ka; let cx := cosQuarter ka
  let sy := sinQuarter kb; let cy := cosQuarter kb
  let sz := sinQuarter kc; let cz := cosQuarter kc
  let p1 : Int × Int × Int := (p.1, cx * p.2.1 - sx * p.2.2, sx * p.2.1 + cx * p.2.2)
  let p2 : Int × Int × Int := (cy * p1.1 + sy * p1.2.2, p1.2.1, -sy * p1.1 + cy * p1.2.2)
  (cz * p2.1 - sz * p2.2.1, sz * p2.1 + cz * p2.2.1, p2.2.2)

/-! ## Quality (manifold.cpp) -/

/-- `SetCircularSegments(number)`: `if (number < 3 && number != 0) return;` -/
def setCircularSegments (cur number : Int) : Int := if number < 3 ∧ number ≠ 0 then cur else number

/-- `GetCircularSegments(radius)` with the two float quotients already truncated:
`nSegA = (int)(360.0 / circularAngle_)`, `nSegL = ⌊2·|radius|·π / circularEdgeLength_⌋`:
`if (circularSegments_ > 0) return it; nSeg = fmin(nSegA, nSegL) + 3; nSeg -= nSeg % 4; max(nSeg, 4)` -/
def segments (circ nSegA nSegL : Nat) : Nat :=
  if circ > 0 then circ else
    let nSeg := min nSegA nSegL + 3
    max (nSeg - nSeg % 4) 4

/-- `Cylinder`: `n = circularSegments > 2 ? circularSegments : GetCircularSegments(radius)` -/
def cylinderSegments (arg : Int) (circ nSegA nSegL : Nat) : Nat :=
  if arg > 2 then arg.toNat else segments circ nSegA nSegL

/-- `Sphere`: `n = circularSegments > 0 ? (circularSegments + 3) / 4 : (GetCircularSegments(radius) + 3) / 4` -/
def sphereN (arg : Int) (circ nSegA nSegL : Nat) : Nat :=
  if arg > 0 then (arg.toNat + 3) / 4 else (segments circ nSegA nSegL + 3) / 4

/-- triangles of an `n`-gon prism / cone frustum (`2n` side + `2(n-2)` caps), of the cone
(`n` side + `n-2` cap) and of the subdivided octahedron (`8 n²`) -/
def cylinderNumTri (n : Nat) (isCone : Bool) : Nat := if isCone then 2 * n - 2 else 4 * n - 4
def sphereNumTri (n : Nat) : Nat := 8 * n * n

/-! ## invalid-argument guards

A floating-point argument enters a guard only through comparisons with `0`; `Sgn` is what those
comparisons can see (`nan`: every comparison false). -/

inductive Sgn where | neg | zero | pos | nan
deriving Repr, DecidableEq, Inhabited

def Sgn.lt0 : Sgn → Bool | .neg => true | _ => false
def Sgn.le0 : Sgn → Bool | .neg => true | .zero => true | _ => false
def Sgn.eq0 : Sgn → Bool | .zero => true | _ => false
def Sgn.ge0 : Sgn → Bool | .zero => true | .pos => true | _ => false
def Sgn.gt0 : Sgn → Bool | .pos => true | _ => false

inductive Status where | ok | invalid
deriving Repr, DecidableEq, Inhabited

/-- `la::length(size) == 0.` as seen through the classes: the square root of a sum of squares is
`0` iff all components are `±0` (underflow of tiny squares is outside the classes), NaN if any
component is NaN -/
def lengthIsZero (x y z : Sgn) : Bool := x.eq0 && y.eq0 && z.eq0

/-- `Cube`: `if (!(size.x >= 0.0 && size.y >= 0.0 && size.z >= 0.0) || la::length(size) == 0.) return Invalid();` -/
def cubeStatus (x y z : Sgn) : Status :=
  if !(x.ge0 && y.ge0 && z.ge0) || lengthIsZero x y z then .invalid else .ok

/-- `Cylinder`: `if (!(height > 0.0) || !(radiusLow >= 0.0)) Invalid; if (radiusLow == 0.0) { if (!(radiusHigh > 0.0))
Invalid; else the mirrored cone Cylinder(height, radiusHigh, 0.0, …) }` (the recursive call has
`radiusLow = radiusHigh > 0`, so it passes both guards) -/
def cylinderStatus (height rLow rHigh : Sgn) : Status :=
  if !height.gt0 || !rLow.ge0 then .invalid
  else if rLow.eq0 then (if !rHigh.gt0 then .invalid else .ok)
  else .ok

/-- `Sphere`: `if (!(radius > 0.0)) return Invalid();` -/
def sphereStatus (radius : Sgn) : Status := if !radius.gt0 then .invalid else .ok

/-- `Extrude`: `if (crossSection.size() == 0 || !(height > 0.0) || nDivisions < 0) return Invalid();` -/
def extrudeStatus (numPolys : Nat) (height nDivisions : Sgn) : Status :=
  if numPolys = 0 || !height.gt0 || nDivisions.lt0 then .invalid else .ok

/-- `Revolve`: a polygon survives the clip iff some vertex has `!(x < 0)`;
`if (polygons.empty() || !(revolveDegrees > 0.0)) return Invalid();` — `polysHaveNonNeg[i]` says
polygon `i` has such a vertex -/
def revolveStatus (revolveDegrees : Sgn) (polysHaveNonNeg : List Bool) : Status :=
  if polysHaveNonNeg.any id && revolveDegrees.gt0 then .ok else .invalid

end MV.Ctor
