import MV.Gen.Tet
/-
Marching tetrahedra of /repo/src/sdf.cpp: what the tables `tetTri0`, `tetTri1`, `neighbors`
(regenerated into MV/Gen/Tet.lean) MEAN, read off from how `BuildTris` uses them.  Core only.

A tetrahedron handed to `CreateTris(tet, edges)` has
  * four corners  tet[0..3]   (`tet[k] > 0` ⇔ corner k is inside; row selector
                               `i = Σ (tet[k] > 0) << k`),
  * six edges     edges[0..5] (output-vertex index of the crossing on that tet edge).
Which corners edge `e` joins (`edgeEnds`) is fixed by `BuildTris::operator()` (sdf.cpp:361-431):
  tet = (NeighborInside(0) [the lead vert, +(½,½,½)], Inside() [base], X, Y)
  edges1 = {base.edgeVerts[0]            base–lead        = corners 1–0,
            base.edgeVerts[i+1]          base–X           = corners 1–2,
            nextVert.edgeVerts[Next3+4]  X–Y              = corners 2–3,
            nextVert.edgeVerts[Prev3+1]  Y–lead           = corners 3–0,
            thisVert.edgeVerts[i+4]      X–lead           = corners 2–0,
            base.edgeVerts[Prev3+4]      base–Y           = corners 1–3}
(`buildTris_edges_geometric` in MV/Props/C17.lean checks this reading against the lattice
offsets of `neighbors`.)
-/
namespace MV.Tet
open MV.Gen.Tet

/-- tet edge `e` joins tet corners `edgeEnds[e]` -/
def edgeEnds : List (Nat × Nat) := [(0, 1), (1, 2), (2, 3), (3, 0), (0, 2), (1, 3)]

/-- corner `k` is inside under sign pattern `i` (`tet[k] > 0`) -/
def inside (i k : Nat) : Bool := (i / 2 ^ k) % 2 == 1

/-- tet edge `e` crosses the surface under pattern `i` -/
def crossing (i e : Nat) : Bool :=
  let p := edgeEnds.getD e (0, 0)
  inside i p.1 != inside i p.2

/-- the triangles `CreateTris` emits for pattern `i`, as triples of tet-edge ids
    (`CreateTri` returns at once when `tri[0] < 0`) -/
def patternTris (i : Nat) : List (Int × Int × Int) :=
  [tetTri0.getD i (-1, -1, -1), tetTri1.getD i (-1, -1, -1)].filter fun t => decide (0 ≤ t.1)

/-- their directed sides (pairs of tet-edge ids) -/
def patternSides (i : Nat) : List (Int × Int) :=
  (patternTris i).flatMap fun t => [(t.1, t.2.1), (t.2.1, t.2.2), (t.2.2, t.1)]

/-- net coefficient of the directed side `e1 → e2` in the triangles of pattern `i` -/
def patternNet (i : Nat) (e1 e2 : Nat) : Int :=
  ((patternSides i).count ((e1 : Int), (e2 : Int)) : Int) - ((patternSides i).count ((e2 : Int), (e1 : Int)) : Int)

/-- id of the tet edge joining corners `x`, `y` (6 = none) -/
def edgeId (x y : Nat) : Nat :=
  (edgeEnds.findIdx? fun p => (p.1 == x && p.2 == y) || (p.1 == y && p.2 == x)).getD 6

/-- THE FACE RULE.  On a triangular face with corners `(p, q, r)` in this cyclic order whose
corner signs are `sp sq sr`, the surface trace is one directed segment between the two crossing
sides — from side `{a,b}` to side `{a,c}` where `a` is the corner whose sign differs from the
other two and `(a, b, c)` is the cyclic order, when `a` is inside; reversed when `a` is outside —
and nothing when the three signs agree.  It mentions the face's own corners and signs only. -/
def faceRule (p q r : Nat) (sp sq sr : Bool) : Option ((Nat × Nat) × (Nat × Nat)) :=
  if sp != sq && sp != sr then (if sp then some ((p, q), (p, r)) else some ((p, r), (p, q)))
  else if sq != sr && sq != sp then (if sq then some ((q, r), (q, p)) else some ((q, p), (q, r)))
  else if sr != sp && sr != sq then (if sr then some ((r, p), (r, q)) else some ((r, q), (r, p)))
  else none

/-- the four faces of the tet `(0,1,2,3)` with the orientation induced by the corner order
    (face opposite corner k: `(-1)^k (0..k̂..3)`) -/
def orientedFaces : List (Nat × Nat × Nat) := [(1, 2, 3), (0, 3, 2), (0, 1, 3), (0, 2, 1)]

/-- coefficient of `e1 → e2` in the trace that `faceRule` prescribes on one face -/
def faceNet (i : Nat) (f : Nat × Nat × Nat) (e1 e2 : Nat) : Int :=
  match faceRule f.1 f.2.1 f.2.2 (inside i f.1) (inside i f.2.1) (inside i f.2.2) with
  | none => 0
  | some (a, b) =>
      let x := edgeId a.1 a.2
      let y := edgeId b.1 b.2
      (if x = e1 ∧ y = e2 then 1 else 0) - (if x = e2 ∧ y = e1 then 1 else 0)

/-- the same summed over the four faces -/
def expectedNet (i e1 e2 : Nat) : Int := (orientedFaces.map fun f => faceNet i f e1 e2).sum

/-! ## lattice geometry of `BuildTris` (doubled coordinates relative to the base GridVert) -/

abbrev P3 := Int × Int × Int
def P3.add (a b : P3) : P3 := (a.1 + b.1, a.2.1 + b.2.1, a.2.2 + b.2.2)
def P3.neg (a : P3) : P3 := (-a.1, -a.2.1, -a.2.2)
def axis2 (k : Nat) : P3 := (if k = 0 then 2 else 0, if k = 1 then 2 else 0, if k = 2 then 2 else 0)

/-- `Position(Neighbor(base, n)) − Position(base)` in units of half a cell:
`Position` puts `w = 1` verts on integer positions and `w = 0` verts half a cell lower, and
`Neighbor` turns `w = 2` into `(+1,+1,+1, w = 0)`; both base parities give `2·d + w`. -/
def nbrOff (n : Nat) : P3 :=
  let d := neighbors.getD n (0, 0, 0, 0)
  (2 * d.1 + d.2.2.2, 2 * d.2.1 + d.2.2.2, 2 * d.2.2.1 + d.2.2.2)

def det3 (a b c : P3) : Int :=
  a.1 * (b.2.1 * c.2.2 - b.2.2 * c.2.1) - a.2.1 * (b.1 * c.2.2 - b.2.2 * c.1) + a.2.2 * (b.1 * c.2.1 - b.2.1 * c.1)

/-- one tetrahedron of `BuildTris`: corner positions and, for each tet edge, the position of
    the GridVert whose `edgeVerts[n]` is read and that index `n` -/
structure TetGeo where
  corners : List P3
  edges : List (P3 × Nat)
deriving Repr, DecidableEq

def resolve (tbl : List (Owner × (Nat → Nat))) (i : Nat) (base thisV nextV : P3) (e1 : List (P3 × Nat)) :
    List (P3 × Nat) :=
  tbl.map fun (o, f) =>
    match o with
    | .base => (base, f i)
    | .thisVert => (thisV, f i)
    | .nextVert => (nextV, f i)
    | .reuse => e1.getD (f i) ((0, 0, 0), 99)

/-- the two tetrahedra of loop iteration `i` of `BuildTris::operator()` (sdf.cpp:386-429);
`thisV`/`tet2` are the loop-carried `thisVert` position and the neighbour index whose sign is
`tet[2]`.  Returns the tets and the carried values. -/
def buildIter (i : Nat) (thisV : P3) (tet2 : Nat) : (TetGeo × TetGeo) × (P3 × Nat) :=
  let base : P3 := (0, 0, 0)
  let lead : P3 := nbrOff 0                         -- leadIndex
  -- thisIndex = leadIndex; --thisIndex[Prev3(i)];
  let next1 := P3.add lead (P3.neg (axis2 (prev3 i)))
  let tet3 := prev3 i + 4                           -- tet[3] = base.NeighborInside(Prev3(i) + 4)
  let e1 := resolve edges1 i base thisV next1 []
  let g1 : TetGeo := ⟨[lead, base, nbrOff tet2, nbrOff tet3], e1⟩
  -- thisVert = nextVert; thisIndex = baseIndex; ++thisIndex[Next3(i)];
  let next2 := P3.add base (axis2 (next3 i))
  let tet3' := next3 i + 1                          -- tet[2] = tet[3]; tet[3] = NeighborInside(Next3(i) + 1)
  let e2 := resolve edges2 i base next1 next2 e1
  let g2 : TetGeo := ⟨[lead, base, nbrOff tet3, nbrOff tet3'], e2⟩
  ((g1, g2), (next2, tet3'))                         -- thisVert = nextVert; tet[2] = tet[3]

/-- the six tetrahedra around the (1,1,1) edge of a base GridVert, in emission order.
Before the loop: `thisIndex = baseIndex; thisIndex.x += 1` and `tet[2] = NeighborInside(1)`. -/
def buildTets : List TetGeo :=
  let r0 := buildIter 0 (axis2 0) 1
  let r1 := buildIter 1 r0.2.1 r0.2.2
  let r2 := buildIter 2 r1.2.1 r1.2.2
  [r0.1.1, r0.1.2, r1.1.1, r1.1.2, r2.1.1, r2.1.2]

/-- tet edge `e` of `g` is read from the GridVert and neighbour slot that span exactly the
    segment between the corners `edgeEnds[e]` -/
def edgeOk (g : TetGeo) (e : Nat) : Bool :=
  let (o, n) := g.edges.getD e ((0, 0, 0), 99)
  let ends := edgeEnds.getD e (0, 0)
  let a := g.corners.getD ends.1 (0, 0, 0)
  let b := g.corners.getD ends.2 (0, 0, 0)
  let far := P3.add o (nbrOff n)
  decide (n < 7) && ((o == a && far == b) || (o == b && far == a))

def tetDet (g : TetGeo) : Int :=
  let c k := g.corners.getD k (0, 0, 0)
  let d k : P3 := P3.add (c k) (P3.neg (c 0))
  det3 (d 1) (d 2) (d 3)

end MV.Tet
