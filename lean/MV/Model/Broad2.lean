/-
Model of the 2-D broad phase of /repo/src/boolean2.cpp / boolean2.h and of the polygon k-d tree
of /repo/src/tree2d.cpp / tree2d.h.  Core Lean only (the driver links against this file).

Conventions
* Coordinates are `Int` (as in MV/Model/Collider.lean): the driver uses integer lattices, every
  comparison is exact, and nothing below uses more than the linear order of the coordinates.
* Morton codes are an INPUT of `bvh2Build` (one code per original box, any values `< 2^32`):
  `MortonCode2` is floating-point arithmetic and only decides the *shape* of the tree; the
  theorems hold for every code array.  The harness passes the codes the real `MortonCode2`
  produces.
* `std::stable_sort(first, last, lt)` is `stableSort lt`: core's `List.mergeSort` with
  `le a b := !lt b a`.  For a strict weak order `lt` the result of a stable sort is unique, so
  any stable algorithm produces the same list (core proves `List.mergeSort` stable:
  `List.sublist_mergeSort`).
* The filter `SharedEndpointSafelySkippable(edges[a], edges[b], verts, eps)` is an explicit
  argument `skip a b` (nondeterminism made explicit: it is floating-point geometry).
* A 2-D box is embedded as the 3-D box with `z = [0,0]` (`Box2.embed`) to traverse the BVH with
  `MV.Collider.findCollision`: `BVHCollisions` (boolean2.h:91-131) is, line for line,
  `FindCollision::operator()` (collider.h:161-217) with `selfCollision = false`,
  `Box2::DoesOverlap` for `Box::DoesOverlap` and `kBvhTraversalStackCapacity = 64` for
  `int stack[64]`.
* The conceptual rectangle `current` of `QueryTwoDTree` starts at `(-inf, +inf)`; a lower
  bound is `Option Int` with `none = -inf`, an upper bound `Option Int` with `none = +inf`.
* Where a function returns `Option`, `none` means: fuel exhausted, an index outside an array,
  or a push onto a full 64-entry stack.  The theorems show `some` for all legal inputs.
-/
import MV.Model.Collider

namespace MV.Broad2
open MV.Collider

/-- `std::stable_sort` with the strict comparator `lt` -/
def stableSort {α : Type} (lt : α → α → Bool) (l : List α) : List α :=
  l.mergeSort (fun a b => !lt b a)

/-! ## Box2 (boolean2.h:55-76) -/

structure Box2 where
  minX : Int
  minY : Int
  maxX : Int
  maxY : Int
deriving DecidableEq, Repr, Inhabited

/-- `Box2::Union`, boolean2.h:64 -/
def Box2.union (a b : Box2) : Box2 :=
  ⟨Min.min a.minX b.minX, Min.min a.minY b.minY, Max.max a.maxX b.maxX, Max.max a.maxY b.maxY⟩

/-- `Box2::DoesOverlap`, boolean2.h:71 : closed intervals on both axes -/
def Box2.doesOverlap (a b : Box2) : Bool :=
  decide (a.minX ≤ b.maxX) && decide (a.maxX ≥ b.minX) && decide (a.minY ≤ b.maxY) &&
  decide (a.maxY ≥ b.minY)

/-- the 3-D box with `z = [0,0]` -/
def Box2.embed (b : Box2) : Box := ⟨⟨b.minX, b.minY, 0⟩, ⟨b.maxX, b.maxY, 0⟩⟩

/-- the x/y part of a 3-D box -/
def Box2.ofBox (b : Box) : Box2 := ⟨b.min.x, b.min.y, b.max.x, b.max.y⟩

def boxAt (boxes : Array Box2) (i : Nat) : Box2 := boxes.getD i default

/-! ## CollectIntersectionPairs, no-BVH branch (boolean2.cpp:738-776) -/

/-- the comparator of the `stable_sort` of `order`, boolean2.cpp:743-747:
by `min.x`, ties by index -/
def sweepLt (boxes : Array Box2) (a b : Nat) : Bool :=
  if (boxAt boxes a).minX != (boxAt boxes b).minX then
    decide ((boxAt boxes a).minX < (boxAt boxes b).minX)
  else decide (a < b)

/-- `order`, boolean2.cpp:741-747 -/
def sweepOrder (boxes : Array Box2) : List Nat :=
  stableSort (sweepLt boxes) (List.range boxes.size)

/-- the inner loop `for (oj = oi + 1; …)`, boolean2.cpp:753-766, for a fixed `i = order[oi]`
over the rest of `order`; the pairs `(first, second)` in the order they are pushed. -/
def sweepInner (boxes : Array Box2) (skip : Nat → Nat → Bool) (i : Nat) :
    List Nat → List (Nat × Nat)
  | [] => []
  | j :: rest =>
    let bi := boxAt boxes i
    let bj := boxAt boxes j
    if bj.minX > bi.maxX then []                                        -- break
    else if decide (bi.minY ≤ bj.maxY) && decide (bi.maxY ≥ bj.minY) then
      if skip i j then sweepInner boxes skip i rest                       -- continue
      else (Min.min i j, Max.max i j) :: sweepInner boxes skip i rest
    else sweepInner boxes skip i rest

/-- the outer loop `for (oi = 0; …)`, boolean2.cpp:750-767 -/
def sweepOuter (boxes : Array Box2) (skip : Nat → Nat → Bool) : List Nat → List (Nat × Nat)
  | [] => []
  | i :: rest => sweepInner boxes skip i rest ++ sweepOuter boxes skip rest

/-- `byFirst[first].push_back(second)` for the pushes in order -/
def bucketPairs (n : Nat) (raw : List (Nat × Nat)) : Array (Array Nat) :=
  raw.foldl (fun acc p => acc.modify p.1 (fun s => s.push p.2)) (Array.replicate n #[])

/-- `SortSmallInts`, boolean2.cpp:652-666 (insertion sort below 32 elements, `stable_sort`
otherwise: both sort the integers ascending) -/
def sortSmallInts (l : List Nat) : List Nat := stableSort (fun a b => decide (a < b)) l

/-- `CollectIntersectionPairs` when `bvh.leafToOrig` is empty: the emitted `pairs`. -/
def xsweepPairs (boxes : Array Box2) (skip : Nat → Nat → Bool) : List (Nat × Nat) :=
  let n := boxes.size
  let byFirst := bucketPairs n (sweepOuter boxes skip (sweepOrder boxes))
  (List.range n).flatMap fun first =>
    (sortSmallInts (byFirst.getD first #[]).toList).map fun second => (first, second)

/-! ## BVHBuildFromBoxes (boolean2.cpp:276-317) -/

structure BVH where
  nodeBBox : Array Box2
  internalChildren : Array (Int × Int)
  leafToOrig : Array Nat
deriving Repr, Inhabited

/-- the recursive lambda `buildNode`, boolean2.cpp:307-314: returns the node's box and the
updated `nodeBBox`.  `fuel` bounds the recursion depth. -/
def buildNode (children : Array (Int × Int)) :
    Nat → Int → Array Box2 → Option (Box2 × Array Box2)
  | 0, _, _ => none
  | fuel + 1, node, boxes =>
    if node < 0 then none
    else if isLeaf node then
      match boxes[node.toNat]? with
      | none => none
      | some b => some (b, boxes)
    else
      match children[(node2Internal node).toNat]? with
      | none => none
      | some (left, right) =>
        match buildNode children fuel left boxes with
        | none => none
        | some (bl, boxes1) =>
          match buildNode children fuel right boxes1 with
          | none => none
          | some (br, boxes2) =>
            if node.toNat < boxes2.size then
              some (bl.union br, boxes2.setIfInBounds node.toNat (bl.union br))
            else none

/-- `nodeBBox` after the loop at boolean2.cpp:305-306: leaf cells filled, internal cells
default-constructed -/
def leafCells (boxes : Array Box2) (leafToOrig : List Nat) : Array Box2 :=
  (Array.range (2 * leafToOrig.length - 1)).map fun c =>
    if c % 2 = 0 then boxAt boxes (leafToOrig.getD (c / 2) 0) else default

/-- `BVHBuildFromBoxes`; `codes[i] = MortonCode2(boxes[i].Center(), bbox)` -/
def bvh2Build (codes : Array Nat) (boxes : Array Box2) : Option BVH :=
  let n := boxes.size
  let leafToOrig := stableSort (fun a b => decide (codes.getD a 0 < codes.getD b 0)) (List.range n)
  if n = 0 then some ⟨#[], #[], #[]⟩
  else
    let sortedMorton := (leafToOrig.map fun i => codes.getD i 0).toArray
    let children := (createRadixTree sortedMorton).1
    let cells := leafCells boxes leafToOrig
    if n > 1 then
      match buildNode children (2 * n) kRoot cells with
      | none => none
      | some (_, nb) => some ⟨nb, children, leafToOrig.toArray⟩
    else some ⟨cells, children, leafToOrig.toArray⟩

/-! ## BVHCollisions / CollidePairs / CollectIntersectionPairs, BVH branch
(boolean2.h:91-142, boolean2.cpp:777-792) -/

/-- one `collideOne(queryIdx)` of `BVHCollisions`: the leaf indices in the order
`recorder.record` is called -/
def bvh2Query (bvh : BVH) (q : Box2) : Option (Array Nat) :=
  findCollision bvh.internalChildren (bvh.nodeBBox.map Box2.embed)
    (fun b => (Box2.ofBox b).doesOverlap q) false 0

/-- what the recorder keeps of one query: `li = leafToOrig[leafIdx]`, `qi < li`, not skipped -/
def bvh2Keep (bvh : BVH) (skip : Nat → Nat → Bool) (qi : Nat) (leaves : List Nat) :
    List (Nat × Nat) :=
  leaves.filterMap fun leaf =>
    let li := bvh.leafToOrig.getD leaf 0
    if qi ≥ li then none else if skip qi li then none else some (qi, li)

def collectAll (f : Nat → Option (List (Nat × Nat))) : List Nat → Option (List (Nat × Nat))
  | [] => some []
  | q :: qs =>
    match f q, collectAll f qs with
    | some a, some b => some (a ++ b)
    | _, _ => none

/-- lexicographic `≤` on pairs (the order of the 64-bit keys of `RadixSortPairs`) -/
def pairLe (a b : Nat × Nat) : Bool := decide (a.1 < b.1) || (a.1 == b.1 && decide (a.2 ≤ b.2))

/-- `RadixSortPairs`, boolean2.cpp:630-650 -/
def radixSortPairs (l : List (Nat × Nat)) : List (Nat × Nat) := l.mergeSort pairLe

/-- the pairs before the sort, queries `0 … nE-1` in index order (the serial `CollidePairs`;
the parallel recorder concatenates per-thread buffers in some other order, which the sort
makes irrelevant) -/
def bvh2Raw (bvh : BVH) (edgeBoxes : Array Box2) (skip : Nat → Nat → Bool) :
    Option (List (Nat × Nat)) :=
  collectAll (fun qi => (bvh2Query bvh (boxAt edgeBoxes qi)).map
    fun out => bvh2Keep bvh skip qi out.toList) (List.range edgeBoxes.size)

/-- `CollectIntersectionPairs` with a BVH -/
def bvh2Pairs (bvh : BVH) (edgeBoxes : Array Box2) (skip : Nat → Nat → Bool) :
    Option (List (Nat × Nat)) :=
  (bvh2Raw bvh edgeBoxes skip).map radixSortPairs

/-! ## BuildTwoDTree (tree2d.cpp:39-53) -/

/-- `PolyVert`: position and index -/
structure PolyVert where
  x : Int
  y : Int
  idx : Nat
deriving DecidableEq, Repr, Inhabited

def coord (sortX : Bool) (p : PolyVert) : Int := if sortX then p.x else p.y

/-- `BuildTwoDTreeImpl`; `fuel` bounds the recursion depth (`buildTwoDTree` passes the
length, the depth is at most `log2 length + 1`). -/
def buildImpl : Nat → Bool → List PolyVert → List PolyVert
  | 0, _, pts => pts
  | fuel + 1, sortX, pts =>
    let s := stableSort (fun a b => decide (coord sortX a < coord sortX b)) pts
    if s.length < 2 then s
    else
      match s.drop (s.length / 2) with
      | [] => s
      | m :: right =>
        buildImpl fuel (!sortX) (s.take (s.length / 2)) ++ m :: buildImpl fuel (!sortX) right

/-- `BuildTwoDTree` -/
def buildTwoDTree (pts : List PolyVert) : List PolyVert :=
  if pts.length ≤ 8 then pts else buildImpl pts.length true pts

/-! ## QueryTwoDTree (tree2d.h:29-87) -/

/-- the query rectangle `r` (finite) -/
structure Rect where
  minX : Int
  minY : Int
  maxX : Int
  maxY : Int
deriving DecidableEq, Repr, Inhabited

/-- the conceptual rectangle; `none` is `-inf` for a `min`, `+inf` for a `max` -/
structure CRect where
  minX : Option Int
  minY : Option Int
  maxX : Option Int
  maxY : Option Int
deriving DecidableEq, Repr, Inhabited

/-- `Rect::Contains(vec2)`, common.h:512 -/
def Rect.contains (r : Rect) (p : PolyVert) : Bool :=
  decide (p.x ≥ r.minX) && decide (p.y ≥ r.minY) && decide (r.maxX ≥ p.x) && decide (r.maxY ≥ p.y)

/-- `lo ≤ v` for a lower bound -/
def loLe (lo : Option Int) (v : Int) : Bool :=
  match lo with
  | none => true
  | some a => decide (a ≤ v)

/-- `hi ≥ v` for an upper bound -/
def hiGe (hi : Option Int) (v : Int) : Bool :=
  match hi with
  | none => true
  | some a => decide (a ≥ v)

/-- `Rect::DoesOverlap(const Rect&)`, common.h:527, `this` = conceptual rectangle -/
def CRect.doesOverlap (c : CRect) (r : Rect) : Bool :=
  loLe c.minX r.maxX && loLe c.minY r.maxY && hiGe c.maxX r.minX && hiGe c.maxY r.minY

structure Frame where
  rect : CRect
  view : List PolyVert
  level : Nat
deriving Repr, Inhabited

/-- size of `rectStack` / `viewStack` / `levelStack` -/
def kTreeStack : Nat := 64

/-- the `while (1)` loop of `QueryTwoDTree`; `stack` has its top at the head; `out` are the
points `f` was called with, in call order. -/
def queryLoop (r : Rect) :
    Nat → CRect → List PolyVert → Nat → List Frame → List PolyVert → Option (List PolyVert)
  | 0, _, _, _, _, _ => none
  | fuel + 1, current, view, level, stack, out =>
    if view.length ≤ 8 then
      let out := out ++ view.filter r.contains
      match stack with
      | [] => some out
      | f :: rest => queryLoop r fuel f.rect f.view f.level rest out
    else
      match view.drop (view.length / 2) with
      | [] => none
      | middle :: rightView =>
        let left : CRect :=
          if level % 2 = 0 then { current with maxX := some middle.x }
          else { current with maxY := some middle.y }
        let right : CRect :=
          if level % 2 = 0 then { current with minX := some middle.x }
          else { current with minY := some middle.y }
        let out := if r.contains middle then out ++ [middle] else out
        if left.doesOverlap r then
          if right.doesOverlap r then
            if stack.length ≥ kTreeStack then none
            else queryLoop r fuel left (view.take (view.length / 2)) (level + 1)
              (⟨right, rightView, level + 1⟩ :: stack) out
          else queryLoop r fuel left (view.take (view.length / 2)) (level + 1) stack out
        else queryLoop r fuel right rightView (level + 1) stack out

/-- `QueryTwoDTree(points, r, f)`: the points reported, in report order.  One loop iteration
per visited view and at most `length` views, so `length + 1` iterations suffice. -/
def queryTwoDTree (pts : List PolyVert) (r : Rect) : Option (List PolyVert) :=
  if pts.length ≤ 8 then some (pts.filter r.contains)
  else queryLoop r (pts.length + 1) ⟨none, none, none, none⟩ pts 0 [] []

end MV.Broad2
