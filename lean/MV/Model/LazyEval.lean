/-
The lock protocols of lazy evaluation and of two-lock assignment (property C06), core Lean only.

Part 1 — `MV.LazyEval`: `n` threads force Manifolds that all share one lazy `CsgOpNode` O.
Thread `t` works through its own handle `hd t` (a `Manifold` object: `pNode_` guarded by
`pNodeMutex_`; several threads may use the same handle, and copies are different handles
pointing at the same O).  Transliteration, one atomic step per program counter:

  pc  C++                                                            (file:line)
  --  -------------------------------------------------------------  ---------------------------
  0   std::lock_guard lock(*pNodeMutex_)            blocks while held  manifold.cpp:197
  1   if (pNode_->GetNodeType() != Leaf)            read pNode_        manifold.cpp:216
  2   auto guard = impl_.GetGuard()                 blocks while held  csg_tree.cpp:647
  3   if (cache_ != nullptr) return cache_; + ~guard                   csg_tree.cpp:648-649
  4   auto impl = frame->op_node->impl_.GetGuard()  (visit frame)      csg_tree.cpp:765
  5   read *impl (children pushed / collected), finalize = true, ~impl csg_tree.cpp:814-858
  6   auto impl = ...GetGuard()                     (finalize frame)   csg_tree.cpp:765
  7   if (!cache_) { *impl = {Batch…(children)}; cache_ = (*impl)[0]->Transform(transform_) }
      result = cache_; ~impl                                           csg_tree.cpp:767-812, 861
  8   pNode_ = result                                                  manifold.cpp:217
  9   ~lock_guard                                                      manifold.cpp:232
  10  done (the thread's answer is `res`)

The value of the expression is abstract: `V` is what the Boolean of the original children
gives (computed by the verified evaluator of C03), `T` the node's own transform; the serial
answer is `T V`.  `evals` counts executions of the Boolean.

Part 2 — `MV.TwoLock`: threads running `std::scoped_lock lock(a, b)` (libstdc++ `std::lock`
for two lockables: lock one, `try_lock` the other, on failure release and start with the
other) next to threads that take a single `lock_guard`.
-/
namespace MV.LazyEval

/-- contents of `*impl_` of the shared op node: the original children, or the single
(untransformed) result leaf that replaced them -/
inductive Impl where
  | orig
  | reduced (v : Nat)
deriving DecidableEq, Repr

/-- `pNode_` of a handle: still the op node, or a leaf with a value -/
inductive PNode where
  | op
  | leaf (v : Nat)
deriving DecidableEq, Repr

structure Thread where
  pc : Nat := 0
  /-- children collected at the visit frame (pc 5) -/
  seen : Impl := .orig
  /-- the leaf this thread obtained -/
  res : Option Nat := none
deriving DecidableEq, Repr

structure State where
  /-- per thread -/
  th : Nat → Thread
  /-- per handle: `pNode_` -/
  pnode : Nat → PNode
  /-- per handle: owner of `pNodeMutex_` -/
  hlock : Nat → Option Nat
  /-- owner of O's guard -/
  glock : Option Nat
  impl : Impl
  cache : Option Nat
  evals : Nat

def upd {α : Type} (f : Nat → α) (k : Nat) (v : α) : Nat → α := fun i => if i = k then v else f i

/-- The Boolean executed at finalize on the children a thread collected: the original
children give `V`; a single already-reduced leaf is returned as it is. -/
def evalSeen (V : Nat) : Impl → Nat
  | .orig => V
  | .reduced v => v

def init : State :=
  { th := fun _ => {}, pnode := fun _ => .op, hlock := fun _ => none, glock := none,
    impl := .orig, cache := none, evals := 0 }

/-- Thread `t` is able to take a step. -/
def enabled (hd : Nat → Nat) (s : State) (t : Nat) : Bool :=
  match (s.th t).pc with
  | 0 => (s.hlock (hd t)).isNone
  | 2 | 4 | 6 => s.glock.isNone
  | 10 => false
  | _ => true

/-- One atomic step of thread `t` (no change when it is blocked or done). -/
def step (V : Nat) (T : Nat → Nat) (hd : Nat → Nat) (s : State) (t : Nat) : State :=
  let me := s.th t
  let setpc (pc : Nat) : State := { s with th := upd s.th t { me with pc := pc } }
  if !enabled hd s t then s else
  match me.pc with
  | 0 => { setpc 1 with hlock := upd s.hlock (hd t) (some t) }
  | 1 => match s.pnode (hd t) with
    | .leaf v => { s with th := upd s.th t { me with pc := 9, res := some v } }
    | .op => setpc 2
  | 2 => { setpc 3 with glock := some t }
  | 3 => match s.cache with
    | some v => { s with th := upd s.th t { me with pc := 8, res := some v }, glock := none }
    | none => { setpc 4 with glock := none }
  | 4 => { setpc 5 with glock := some t }
  | 5 => { s with th := upd s.th t { me with pc := 6, seen := s.impl }, glock := none }
  | 6 => { setpc 7 with glock := some t }
  | 7 => match s.cache with
    | some v => { s with th := upd s.th t { me with pc := 8, res := some v }, glock := none }
    | none =>
      let r := evalSeen V me.seen
      { s with th := upd s.th t { me with pc := 8, res := some (T r) }, glock := none,
               impl := .reduced r, cache := some (T r), evals := s.evals + 1 }
  | 8 => match me.res with
    | some v => { setpc 9 with pnode := upd s.pnode (hd t) (.leaf v) }
    | none => setpc 9
  | 9 => { setpc 10 with hlock := upd s.hlock (hd t) none }
  | _ => s

def run (V : Nat) (T : Nat → Nat) (hd : Nat → Nat) : State → List Nat → State
  | s, [] => s
  | s, t :: ts => run V T hd (step V T hd s t) ts

end MV.LazyEval

namespace MV.TwoLock

/-- What a thread does: `one l` = `lock_guard` on `l` (copy constructor, `LoadPNode`);
`two a b` = `scoped_lock(a, b)` (`operator=`). -/
inductive Prog where
  | one (l : Nat)
  | two (a b : Nat)
deriving DecidableEq, Repr

/-- pc of a thread.  `idle`: holds nothing, about to block on its (current first) lock;
`first`: holds `cur`, about to `try_lock` the other; `crit`: holds all its locks;
`fin`: released everything. -/
inductive Pc where
  | idle | first | crit | fin
deriving DecidableEq, Repr

structure Thread where
  pc : Pc := .idle
  /-- which of the two locks `std::lock` starts with (false: `a`, true: `b`) -/
  swap : Bool := false
deriving DecidableEq, Repr

structure State where
  th : Nat → Thread
  /-- owner of each lock -/
  owner : Nat → Option Nat

def upd {α : Type} (f : Nat → α) (k : Nat) (v : α) : Nat → α := fun i => if i = k then v else f i

def init : State := { th := fun _ => {}, owner := fun _ => none }

/-- the lock a `two a b` thread starts with / tries second -/
def fstLock (a b : Nat) (swap : Bool) : Nat := if swap then b else a
def sndLock (a b : Nat) (swap : Bool) : Nat := if swap then a else b

def enabled (prog : Nat → Prog) (s : State) (t : Nat) : Bool :=
  match (s.th t).pc, prog t with
  | .idle, .one l => (s.owner l).isNone
  | .idle, .two a b => (s.owner (fstLock a b (s.th t).swap)).isNone
  | .first, _ => true
  | .crit, _ => true
  | .fin, _ => false

def step (prog : Nat → Prog) (s : State) (t : Nat) : State :=
  let me := s.th t
  if !enabled prog s t then s else
  match me.pc, prog t with
  | .idle, .one l => { th := upd s.th t { me with pc := .crit }, owner := upd s.owner l (some t) }
  | .idle, .two a b =>
    { th := upd s.th t { me with pc := .first }, owner := upd s.owner (fstLock a b me.swap) (some t) }
  | .first, .two a b =>
    if (s.owner (sndLock a b me.swap)).isNone then
      { th := upd s.th t { me with pc := .crit }, owner := upd s.owner (sndLock a b me.swap) (some t) }
    else
      -- try_lock failed: release the first lock and start over with the other one
      { th := upd s.th t { pc := .idle, swap := !me.swap }, owner := upd s.owner (fstLock a b me.swap) none }
  | .first, .one _ => s
  | .crit, .one l => { th := upd s.th t { me with pc := .fin }, owner := upd s.owner l none }
  | .crit, .two a b =>
    { th := upd s.th t { me with pc := .fin }, owner := upd (upd s.owner a none) b none }
  | .fin, _ => s

def run (prog : Nat → Prog) : State → List Nat → State
  | s, [] => s
  | s, t :: ts => run prog (step prog s t) ts

end MV.TwoLock
