/-
C15 (cancellation half) — the cancellation discipline of the source, as a decidable predicate on
the table `MV.Gen.CancelSites.fns` that tools/extract_cancel.py regenerates from src/ on every run.

An item that may leave PARTIAL state behind when the context is cancelled (a context-aware loop, or
a call of a helper that mutates in place) must be followed, later in the same function, by a check
(`if (IsCancelled(ctx)) return …`) — the invariant written at the top of `SortGeometry`.
Two reviewed kinds of exception:
* `valueCallees`: callees whose outcome under cancellation is an explicit all-or-nothing VALUE (a
  Cancelled leaf / an Impl emptied with Error::Cancelled); their callers need no check of their own.
* `tailFns`: helpers that END with such an item; the obligation moves to every call site, which must
  then be followed by a check in the caller (checked here), and at least one call site must exist.
-/
import MV.Gen.CancelSites
import MV.Model.Progress
namespace MV.CancelSites
open MV.Gen.CancelSites

/-- callees that return an all-or-nothing value under cancellation (reviewed) -/
def valueCallees : List String := [
  "Boolean3", "boolean",       -- Boolean3's constructor + Result(): every phase() failure returns an Impl emptied with Cancelled
  "SimpleBoolean", "BatchBoolean", "BatchUnion",   -- return ErrorLeaf(Cancelled) or a complete leaf
  "ToLeafNode", "GetCsgLeafNode",                  -- the evaluated leaf or the Cancelled leaf (cache_ poisoned)
  "CreateTangents",            -- every ADVANCE_PHASE_OR_RETURN does MakeEmpty(Error::Cancelled) before returning
  "shared_ptr"                 -- `std::make_shared<Impl>(mesh, ctx)`: the MeshGL constructor, same macro
]

/-- helpers that end with a context-aware loop / in-place call; their call sites carry the check (reviewed) -/
def tailFns : List String := ["Intersect12", "Winding03", "AppendWholeEdges", "WriteGeneralTriangulation", "WriteTriRefs"]

def needsCheck : Item → Bool
  | .loop => true
  | .call c => !valueCallees.contains c
  | _ => false

def bodyOk : List Item → Bool
  | [] => true
  | it :: rest => (!needsCheck it || rest.contains .check) && bodyOk rest

/-- (producer, consumer): the producer's last context-aware item has no check behind it because the
consumer, which is the only thing that reads the producer's output, checks the flag on entry
(src/boolean3.cpp: "No trailing check: Winding03_ already returns empty on cancel and Boolean3::Result
re-checks on entry").  The table must confirm that the consumer's first non-work item is a check. -/
def entryChecked : List (String × String) := [("Boolean3", "Result")]

def startsWithCheck : List Item → Bool
  | .work :: rest => startsWithCheck rest
  | .check :: _ => true
  | _ => false

def consumerChecks (fs : List Fn) (consumer : String) : Bool :=
  fs.any (fun g => g.name == consumer) && fs.all (fun g => g.name != consumer || startsWithCheck g.body)

/-- functions whose own body is not required to satisfy `bodyOk` -/
def exempt (f : Fn) : Bool := tailFns.contains f.name || entryChecked.any (fun p => p.1 == f.name)

def fnOkIn (fs : List Fn) (f : Fn) : Bool :=
  tailFns.contains f.name || bodyOk f.body ||
  entryChecked.any (fun p => p.1 == f.name && consumerChecks fs p.2)

def fnOk (f : Fn) : Bool := fnOkIn fns f

/-- every tail helper is called from somewhere in the table (and, being no value callee, each such call
is an item that `bodyOk` of the caller requires a later check for) -/
def tailLive (fs : List Fn) : Bool :=
  tailFns.all (fun t => !valueCallees.contains t && fs.any (fun f => f.body.contains (.call t)))

/-- translation into the statement language of `MV.Progress` (one chunk per loop; value callees and
plain work are cancel-blind work items) -/
def toStmts : List Item → List MV.Progress.Stmt
  | [] => []
  | .loop :: rest => .loop 0 1 :: toStmts rest
  | .call c :: rest => (if valueCallees.contains c then .work 1 else .loop 1 1) :: toStmts rest
  | .check :: rest => .check :: toStmts rest
  | .work :: rest => .work 2 :: toStmts rest

end MV.CancelSites
