/-
Mesh vocabulary for property C01 ("the exported mesh, after applying its merge vectors, is a
closed oriented 2-manifold").  Core Lean only; everything here is executable and linked into
`mvdriver`.

  Tri, triEdges, dirEdges      a triangle list and its list of directed edges (halfedges),
                               in the order 3*tri+i used everywhere in /repo (halfedge 3t+i
                               runs from corner i to corner Next3(i)).
  Closed2Manifold nV ts        the specification (a Prop).
  checkMeshEx / checkMesh      the O(n log n) executable checker (two merge sorts of the edge
                               keys `a*nV+b`), returning the first violated clause.
  eulerGenus, numEdge          `Manifold::Genus()` / `Impl::NumEdge()`
                               (/repo/src/manifold.cpp:417-420, /repo/src/impl.h:147).
  applyMerge                   `merge[mergeFrom[i]] = mergeTo[i]` over iota, then every index
                               read through `merge` (/repo/include/manifold/mesh.h:51-55,
                               /repo/src/impl.h:378-391 (importer), /repo/src/sort.cpp:82-86).
-/
namespace MV.Mesh

abbrev Tri := Nat × Nat × Nat

/-- the three directed edges of a triangle, halfedge order `3*tri + {0,1,2}` -/
def triEdges (t : Tri) : List (Nat × Nat) := [(t.1, t.2.1), (t.2.1, t.2.2), (t.2.2, t.1)]

/-- the three corners of a triangle -/
def triVerts (t : Tri) : List Nat := [t.1, t.2.1, t.2.2]

/-- all directed edges; entry `3*t+i` is halfedge `3*t+i` -/
def dirEdges (ts : List Tri) : List (Nat × Nat) := ts.flatMap triEdges

def TriInRange (nV : Nat) (t : Tri) : Prop := t.1 < nV ∧ t.2.1 < nV ∧ t.2.2 < nV
def TriNondeg (t : Tri) : Prop := t.1 ≠ t.2.1 ∧ t.2.1 ≠ t.2.2 ∧ t.2.2 ≠ t.1

instance (nV : Nat) (t : Tri) : Decidable (TriInRange nV t) := by unfold TriInRange; infer_instance
instance (t : Tri) : Decidable (TriNondeg t) := by unfold TriNondeg; infer_instance

/-- index-free part of the specification: no triangle repeats a vertex, every directed edge
occurs exactly once, and is matched by its opposite (which then also occurs exactly once). -/
def ClosedOriented (ts : List Tri) : Prop :=
  (∀ t ∈ ts, TriNondeg t) ∧ (dirEdges ts).Nodup ∧
  (∀ a b, (a, b) ∈ dirEdges ts → (b, a) ∈ dirEdges ts)

/-- `Closed2Manifold` with an exemption set for the "every vertex is referenced" clause
(used for meshes whose merge vectors have been applied: the merged-from vertices stay in the
vertex buffer but are no longer referenced). -/
def Closed2ManifoldEx (nV : Nat) (exempt : Nat → Bool) (ts : List Tri) : Prop :=
  (∀ t ∈ ts, TriInRange nV t) ∧ (∀ t ∈ ts, TriNondeg t) ∧ (dirEdges ts).Nodup ∧
  (∀ a b, (a, b) ∈ dirEdges ts → (b, a) ∈ dirEdges ts) ∧
  (∀ v, v < nV → exempt v = false → ∃ t ∈ ts, v ∈ triVerts t)

/-- THE SPECIFICATION.  A triangle list over `nV` vertices is a closed oriented 2-manifold:
every index is `< nV`; no triangle repeats a vertex; the list of directed edges has no
duplicates; the reverse of every directed edge is a directed edge; every vertex is used. -/
def Closed2Manifold (nV : Nat) (ts : List Tri) : Prop :=
  (∀ t ∈ ts, TriInRange nV t) ∧ (∀ t ∈ ts, TriNondeg t) ∧ (dirEdges ts).Nodup ∧
  (∀ a b, (a, b) ∈ dirEdges ts → (b, a) ∈ dirEdges ts) ∧
  (∀ v, v < nV → ∃ t ∈ ts, v ∈ triVerts t)

/-! ## the checker -/

inductive MeshErr where
  | indexOutOfRange (tri : Nat)
  | degenerateTriangle (tri : Nat)
  | duplicateEdge (a b : Nat)
  | unmatchedEdge (a b : Nat)
  | unreferencedVertex (v : Nat)
deriving Repr, DecidableEq, Inhabited

def triInRange (nV : Nat) (t : Tri) : Bool := decide (t.1 < nV) && decide (t.2.1 < nV) && decide (t.2.2 < nV)
def triNondeg (t : Tri) : Bool := t.1 != t.2.1 && t.2.1 != t.2.2 && t.2.2 != t.1

/-- first element that equals its successor (on a sorted list: the first duplicated value) -/
def adjDup : List Nat → Option Nat
  | a :: b :: l => if a = b then some a else adjDup (b :: l)
  | _ => none

/-- Walk two sorted lists in lock step; the first position where they differ exhibits a value
present in one list and absent from the other (`true`: from the left list). -/
def firstUnmatched : List Nat → List Nat → Option (Bool × Nat)
  | a :: as, b :: bs =>
      if a = b then firstUnmatched as bs else if a < b then some (true, a) else some (false, b)
  | a :: _, [] => some (true, a)
  | [], b :: _ => some (false, b)
  | [], [] => none

/-- `marks[v] = true` iff vertex `v` is a corner of some triangle -/
def markVerts (nV : Nat) (ts : List Tri) : Array Bool :=
  ts.foldl (fun m t => ((m.setIfInBounds t.1 true).setIfInBounds t.2.1 true).setIfInBounds t.2.2 true)
    (Array.replicate nV false)

/-- first vertex `< nV` that is neither referenced nor exempt -/
def firstUnreferenced (nV : Nat) (exempt : Nat → Bool) (ts : List Tri) : Option Nat :=
  let m := markVerts nV ts
  (List.range nV).find? (fun v => !(m.getD v false) && !(exempt v))

def edgeKeys (nV : Nat) (es : List (Nat × Nat)) : List Nat := es.map fun e => e.1 * nV + e.2
def revKeys (nV : Nat) (es : List (Nat × Nat)) : List Nat := es.map fun e => e.2 * nV + e.1

/-- The checker.  Clauses are tested in the order of the specification; the first violated one
is reported (`indexOutOfRange t` / `degenerateTriangle t`: the first offending triangle;
`duplicateEdge a b`: the smallest duplicated directed edge; `unmatchedEdge a b`: a directed
edge whose reverse is absent; `unreferencedVertex v`: the smallest such vertex).
Cost: two `List.mergeSort`s of `3*nT` machine-word keys. -/
def checkMeshEx (nV : Nat) (exempt : Nat → Bool) (ts : List Tri) : Except MeshErr Unit :=
  match ts.findIdx? (fun t => !triInRange nV t) with
  | some i => .error (.indexOutOfRange i)
  | none =>
  match ts.findIdx? (fun t => !triNondeg t) with
  | some i => .error (.degenerateTriangle i)
  | none =>
  let es := dirEdges ts
  let sk := (edgeKeys nV es).mergeSort
  match adjDup sk with
  | some k => .error (.duplicateEdge (k / nV) (k % nV))
  | none =>
  let rk := (revKeys nV es).mergeSort
  match firstUnmatched sk rk with
  | some (true, k) => .error (.unmatchedEdge (k / nV) (k % nV))
  | some (false, k) => .error (.unmatchedEdge (k % nV) (k / nV))
  | none =>
  match firstUnreferenced nV exempt ts with
  | some v => .error (.unreferencedVertex v)
  | none => .ok ()

def checkMesh (nV : Nat) (ts : List Tri) : Except MeshErr Unit :=
  checkMeshEx nV (fun _ => false) ts

/-! ## counts -/

/-- `Impl::NumEdge()` = `halfedge_.size() / 2` with `halfedge_.size() = 3 * NumTri()` -/
def numEdge (ts : List Tri) : Nat := 3 * ts.length / 2

/-- `Manifold::Genus()`: `int chi = NumVert() - NumEdge() + NumTri(); return 1 - chi / 2;`
(C++ `/` on `int` truncates toward zero: `Int.tdiv`). -/
def eulerGenus (nV : Nat) (ts : List Tri) : Int :=
  1 - Int.tdiv ((nV : Int) - (numEdge ts : Int) + (ts.length : Int)) 2

/-- number of undirected edges of a closed mesh = number of forward directed edges -/
def numUndirected (ts : List Tri) : Nat := ((dirEdges ts).filter fun e => e.1 < e.2).length

/-! ## merge vectors -/

/-- the function `v ↦ merge[v]` of the importer, as a specification: the LAST `i` with
`mergeFrom[i] = v` wins (the C++ loop overwrites), no chaining; identity elsewhere. -/
def mergeFun (mergeFrom mergeTo : List Nat) (v : Nat) : Nat :=
  match (mergeFrom.zip mergeTo).reverse.find? (fun ft => ft.1 == v) with
  | some ft => ft.2
  | none => v

/-- `std::iota(merge); for i: merge[mergeFrom[i]] = mergeTo[i]` on a table of `n` entries.
Out-of-range `mergeFrom[i]` are ignored here (the importer rejects them with
MergeIndexOutOfBounds; `MeshGL::Merge()` writes out of bounds: finding C09). -/
def mergeTable (n : Nat) (mergeFrom mergeTo : List Nat) : Array Nat :=
  (mergeFrom.zip mergeTo).foldl (fun m ft => m.setIfInBounds ft.1 ft.2) (Array.range n)

def mapTri (f : Nat → Nat) (t : Tri) : Tri := (f t.1, f t.2.1, f t.2.2)

/-- one more than the largest index used by `ts` (0 for the empty list) -/
def indexBound (ts : List Tri) : Nat :=
  ts.foldl (fun n t => max (max (max n (t.1 + 1)) (t.2.1 + 1)) (t.2.2 + 1)) 0

/-- the triangle list with every index read through the merge table -/
def applyMerge (mergeFrom mergeTo : List Nat) (ts : List Tri) : List Tri :=
  let m := mergeTable (indexBound ts) mergeFrom mergeTo
  ts.map (mapTri fun v => m.getD v v)

/-- Number of vertices left after compacting away the merged-from vertices that are no longer
referenced: a vertex is kept iff it is referenced or is not exempt. -/
def compactedVertCount (nV : Nat) (exempt : Nat → Bool) (ts : List Tri) : Nat :=
  let m := markVerts nV ts
  ((List.range nV).filter fun v => m.getD v false || !(exempt v)).length

end MV.Mesh
