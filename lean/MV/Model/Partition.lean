/-
Model of `class Partition` in src/subdivision.cpp (lines 31-380): the purely topological
sub-triangulation patterns used by `Manifold::Impl::Subdivide` (Refine, RefineToLength,
RefineToTolerance).  Core Lean only.

Representation choices (all stated, none hidden):
* indices are `Int` exactly as the C++ `int`s (the code passes `-1` placeholders in `cornerVerts` /
  `edgeOffsets` and computes one-past-the-end offsets that it never reads);
* `Vec<ivec3> triVert` is a `List Tri` in push order (`QState.tris` holds it reversed while building);
* `Vec<vec4> vertBary` is split into its *size* (`QState.nV`: the only thing the index arithmetic reads,
  `newEdgeOffsets[1] = vertBary.size()`) and a list of *recipes* (`QState.recs`) that say how each
  pushed barycentric vector was computed: `lerp(vertBary[a], vertBary[b], (double)num / den)`.
  `evalBary` replays the recipes over any scalar type: at `Float` it performs the C++ operations
  in the C++ order (compared bit for bit by the harness), at `Rat` it is the exact oracle used by
  the validity theorems;
* the four places where the C++ decides an integer COUNT through `double` arithmetic
  (`std::sqrt`, `std::round`, `la::lerp`) are the fields of `Dec`: `Dec.float` replays the C++
  expression at `Float`, `Dec.exact` is the integer-exact version.  They agree for all division
  counts below 22 (first disagreement: a `.5` tie in `round(lerp(0,11,15/22))`), the driver reports
  the agreement for every tuple it is asked, and the finite-table theorems are about `Dec.exact`.
-/
namespace MV.Partition

abbrev Tri := Int × Int × Int

structure I4 where
  a : Int
  b : Int
  c : Int
  d : Int
deriving DecidableEq, Repr, Inhabited

structure B4 where
  a : Bool
  b : Bool
  c : Bool
  d : Bool
deriving DecidableEq, Repr, Inhabited

def I4.get (v : I4) (i : Nat) : Int :=
  match i with
  | 0 => v.a
  | 1 => v.b
  | 2 => v.c
  | _ => v.d

def B4.get (v : B4) (i : Nat) : Bool :=
  match i with
  | 0 => v.a
  | 1 => v.b
  | 2 => v.c
  | _ => v.d

def I4.set (v : I4) (i : Nat) (x : Int) : I4 :=
  match i with
  | 0 => { v with a := x }
  | 1 => { v with b := x }
  | 2 => { v with c := x }
  | _ => { v with d := x }

def B4.set (v : B4) (i : Nat) (x : Bool) : B4 :=
  match i with
  | 0 => { v with a := x }
  | 1 => { v with b := x }
  | 2 => { v with c := x }
  | _ => { v with d := x }

def B4.not (v : B4) : B4 := ⟨!v.a, !v.b, !v.c, !v.d⟩

def I4.toList (v : I4) : List Int := [v.a, v.b, v.c, v.d]

/-- How a pushed `vertBary` entry was computed. -/
inductive Recipe where
  /-- `{1,0,0,0}`, `{0,1,0,0}`, … : unit vector `c`. -/
  | corner (c : Nat)
  /-- `la::lerp(vertBary[a], vertBary[b], (double)num / den)`. -/
  | lerp (a b : Nat) (num den : Nat)
deriving DecidableEq, Repr, Inhabited

/-- The count decisions the C++ takes through `double` arithmetic. -/
structure Dec where
  /-- subdivision.cpp:191 `n[1]*n[1] > f - std::sqrt(2.0)*n[0]*n[2]`, `f = n[2]*n[2] + n[0]*n[0]`. -/
  acute : Int → Int → Int → Bool
  /-- subdivision.cpp:200-201 `std::min(n[0]-2, (int)std::round((f - n[1]*n[1]) / (2*n[0])))`. -/
  ns : Int → Int → Int → Int
  /-- subdivision.cpp:203-204 `std::max(1., std::round(std::sqrt(n[2]*n[2] - ns*ns)))`. -/
  nh : Int → Int → Int
  /-- subdivision.cpp:339-340 `std::round(la::lerp((double)a0, (double)a2, (double)i / partitions))`. -/
  rnd : Int → Int → Int → Int → Int

/-- `round(sqrt m)` for an integer `m > 0`: the `k` with `k(k-1) < m ≤ k(k+1)`. -/
def roundSqrtGo (m : Nat) : Nat → Nat → Nat
  | 0, k => k
  | fuel + 1, k => if m ≤ k * (k + 1) then k else roundSqrtGo m fuel (k + 1)

def roundSqrt (m : Nat) : Nat := roundSqrtGo m m 0

/-- Integer-exact decisions (what the `double` expressions mean over the reals;
`round` = half away from zero). -/
def Dec.exact : Dec where
  acute n0 n1 n2 :=
    -- n1² > n0² + n2² - √2·n0·n2  ⇔  √2·n0·n2 > D  with D = n0² + n2² - n1²
    let D := n0 * n0 + n2 * n2 - n1 * n1
    if D ≤ 0 then decide (0 < n0 * n2) || decide (D < 0)
    else decide (D * D < 2 * (n0 * n2) * (n0 * n2)) && decide (0 < n0 * n2)
  ns n0 n1 n2 :=
    let D := n0 * n0 + n2 * n2 - n1 * n1
    -- round(D / (2 n0)) for D ≥ 0, n0 > 0 is ⌊(D + n0) / (2 n0)⌋
    min (n0 - 2) ((D + n0) / (2 * n0))
  nh n2 ns :=
    let m := n2 * n2 - ns * ns
    if m ≤ 0 then 1 else max 1 (Int.ofNat (roundSqrt m.toNat))
  rnd a0 a2 i p :=
    -- round((a0 (p - i) + a2 i) / p), all non-negative
    (2 * (a0 * (p - i) + a2 * i) + p) / (2 * p)

/-- The C++ expressions replayed at `Float` (= IEEE double, same operation order). -/
def Dec.float : Dec where
  acute n0 n1 n2 :=
    let f := Float.ofInt (n2 * n2 + n0 * n0)
    decide (Float.ofInt (n1 * n1) > f - Float.sqrt 2.0 * Float.ofInt n0 * Float.ofInt n2)
  ns n0 n1 n2 :=
    let f := Float.ofInt (n2 * n2 + n0 * n0)
    min (n0 - 2) (Float.round ((f - Float.ofInt (n1 * n1)) / Float.ofInt (2 * n0))).toInt64.toInt
  nh n2 ns :=
    let x := Float.round (Float.sqrt (Float.ofInt (n2 * n2 - ns * ns)))
    -- std::max(1., x) = (1. < x) ? x : 1.
    (if (1.0 : Float) < x then x else 1.0).toInt64.toInt
  rnd a0 a2 i p :=
    let t := Float.ofInt i / Float.ofInt p
    (Float.round (Float.ofInt a0 * (1.0 - t) + Float.ofInt a2 * t)).toInt64.toInt

/-- Building state: `tris`, `recs` reversed; `nV = vertBary.size()`; `ok = false` iff the fuel ran out. -/
structure QState where
  tris : List Tri
  nV : Nat
  recs : List Recipe
  ok : Bool
deriving Repr, Inhabited

def QState.push (s : QState) (t : Tri) : QState := { s with tris := t :: s.tris }
def QState.pushVert (s : QState) (r : Recipe) : QState := { s with nV := s.nV + 1, recs := r :: s.recs }

/-- subdivision.cpp:249-258 `PartitionFan`. -/
def partitionFan (s : QState) (c0 c1 c2 : Int) (added : Int) (edgeOffset : Int) : QState :=
  let (s, last) := (List.range added.toNat).foldl
    (fun (sl : QState × Int) i =>
      let next := edgeOffset + Int.ofNat i
      (sl.1.push (sl.2, next, c2), next)) (s, c0)
  s.push (last, c1, c2)

/-- subdivision.cpp:265-267 the `GetEdgeVert` lambda. -/
def getEdgeVert (eo : I4) (fw : B4) (edge : Nat) (idx : Int) : Int :=
  eo.get edge + (if fw.get edge then 1 else -1) * idx

/-- subdivision.cpp:272-283: the scan for a terminal corner and for a unique non-empty edge.
Returns `(corner, maxEdge)`. -/
def findCorner (ea : I4) : Int × Int :=
  let r := [0, 1, 2, 3].foldl
    (fun (st : Int × Nat × Int) (i : Nat) =>
      let (corner, last, maxEdge) := st
      let corner := if corner == -1 && ea.get i == 0 && ea.get last == 0 then Int.ofNat i else corner
      let maxEdge := if ea.get i > 0 then (if maxEdge == -1 then Int.ofNat i else -2) else maxEdge
      (corner, i, maxEdge)) ((-1 : Int), 3, (-1 : Int))
  (r.1, r.2.2)

/-- subdivision.cpp:285-301: terminal case, exactly one edge carries added vertices. -/
def terminalSingle (s : QState) (cv eo ea : I4) (fw : B4) (maxEdge : Nat) : QState :=
  let e0 := (0 + maxEdge) % 4
  let e1 := (1 + maxEdge) % 4
  let e2 := (2 + maxEdge) % 4
  let e3 := (3 + maxEdge) % 4
  let middle := ea.get maxEdge / 2
  let s := s.push (cv.get e2, cv.get e3, getEdgeVert eo fw maxEdge middle)
  let (s, _) := (List.range (middle.toNat + 1)).foldl
    (fun (sl : QState × Int) i =>
      let next := getEdgeVert eo fw maxEdge (Int.ofNat i)
      (sl.1.push (cv.get e3, sl.2, next), next)) (s, cv.get e0)
  -- for (int i = edgeAdded[maxEdge] - 1; i >= middle; --i)
  let cnt := (ea.get maxEdge - middle).toNat
  let (s, _) := (List.range cnt).foldl
    (fun (sl : QState × Int) k =>
      let i := ea.get maxEdge - 1 - Int.ofNat k
      let next := getEdgeVert eo fw maxEdge i
      (sl.1.push (cv.get e2, next, sl.2), next)) (s, cv.get e1)
  s

/-- subdivision.cpp:302-322: terminal case, no edge or several edges carry added vertices. -/
def terminalMulti (s : QState) (cv eo ea : I4) (fw : B4) (corner : Nat) : QState :=
  let (s, _) := [1, 2].foldl
    (fun (sl : QState × Int) (j : Nat) =>
      let (s, sideVert) := sl
      let side := (corner + j) % 4
      let (s, sideVert) :=
        if j == 2 && ea.get side > 0 then
          (s.push (cv.get side, getEdgeVert eo fw side 0, sideVert), sideVert)
        else (s, cv.get side)
      let (s, sideVert) := (List.range (ea.get side).toNat).foldl
        (fun (sl : QState × Int) i =>
          let nextVert := getEdgeVert eo fw side (Int.ofNat i)
          (sl.1.push (cv.get corner, sl.2, nextVert), nextVert)) (s, sideVert)
      let s := if j == 2 || ea.get side == 0 then
          s.push (cv.get corner, sideVert, cv.get ((corner + j + 1) % 4))
        else s
      (s, sideVert)) (s, cv.get 0)
  s

/-- Loop state of subdivision.cpp:327-365. -/
structure LoopSt where
  s : QState
  ncv : I4
  neo : I4
  nea : I4
  nfw : B4

/-- subdivision.cpp:262-379 `PartitionQuad`.  `fuel` bounds the recursion depth; running out of
fuel clears `ok` (never silently). -/
def partitionQuad (dec : Dec) : Nat → QState → I4 → I4 → I4 → B4 → QState
  | 0, s, _, _, _, _ => { s with ok := false }
  | fuel + 1, s, cv, eo, ea, fw =>
    let (corner, maxEdge) := findCorner ea
    if corner ≥ 0 then
      if maxEdge ≥ 0 then terminalSingle s cv eo ea fw maxEdge.toNat
      else terminalMulti s cv eo ea fw corner.toNat
    else
      let partitions := 1 + min (ea.get 1) (ea.get 3)
      let st0 : LoopSt :=
        { s := s
          ncv := ⟨cv.get 1, -1, -1, cv.get 0⟩
          neo := ⟨eo.get 1, -1, getEdgeVert eo fw 3 (ea.get 3 + 1), eo.get 0⟩
          nea := ⟨0, -1, 0, ea.get 0⟩
          nfw := ⟨fw.get 1, true, fw.get 3, fw.get 0⟩ }
      let st := (List.range (partitions - 1).toNat).foldl
        (fun (st : LoopSt) k =>
          let i : Int := Int.ofNat k + 1
          let cornerOffset1 := (ea.get 1 * i) / partitions
          let cornerOffset3 := ea.get 3 - 1 - (ea.get 3 * i) / partitions
          let nextOffset1 := getEdgeVert eo fw 1 (cornerOffset1 + 1)
          let nextOffset3 := getEdgeVert eo fw 3 (cornerOffset3 + 1)
          let added := dec.rnd (ea.get 0) (ea.get 2) i partitions
          let ncv := (st.ncv.set 1 (getEdgeVert eo fw 1 cornerOffset1)).set 2 (getEdgeVert eo fw 3 cornerOffset3)
          let nea := ((st.nea.set 0 (Int.ofNat (nextOffset1 - st.neo.get 0).natAbs - 1)).set 1 added).set 2
            (Int.ofNat (nextOffset3 - st.neo.get 2).natAbs - 1)
          let neo := (st.neo.set 1 (Int.ofNat st.s.nV)).set 2 nextOffset3
          let s := (List.range added.toNat).foldl
            (fun (s : QState) j =>
              s.pushVert (Recipe.lerp (ncv.get 1).toNat (ncv.get 2).toNat (j + 1) (added.toNat + 1))) st.s
          let s := partitionQuad dec fuel s ncv neo nea st.nfw
          let ncv := (ncv.set 0 (ncv.get 1)).set 3 (ncv.get 2)
          let nea := nea.set 3 (nea.get 1)
          let neo := (neo.set 0 nextOffset1).set 3 (neo.get 1 + nea.get 1 - 1)
          let nfw := st.nfw.set 3 false
          { s := s, ncv := ncv, neo := neo, nea := nea, nfw := nfw }) st0
      let ncv := (st.ncv.set 1 (cv.get 2)).set 2 (cv.get 3)
      let neo := st.neo.set 1 (eo.get 2)
      let nea := ((st.nea.set 0 (ea.get 1 - Int.ofNat (neo.get 0 - eo.get 1).natAbs)).set 1 (ea.get 2)).set 2
        (Int.ofNat (neo.get 2 - eo.get 3).natAbs - 1)
      let neo := neo.set 2 (eo.get 3)
      let nfw := st.nfw.set 1 (fw.get 2)
      partitionQuad dec fuel st.s ncv neo nea nfw

/-- A `Partition` object: `idx`, `sortedDivisions`, `triVert` (push order), `vertBary` as its size
and recipes (push order). -/
structure Part where
  idx : I4
  sorted : I4
  nV : Nat
  recs : List Recipe
  tris : List Tri
  ok : Bool
deriving Repr, Inhabited, DecidableEq

def Part.empty : Part := ⟨⟨0, 0, 0, 0⟩, ⟨0, 0, 0, 0⟩, 0, [], [], true⟩

/-- subdivision.cpp:41-44. -/
def Part.interiorOffset (p : Part) : Int := p.sorted.a + p.sorted.b + p.sorted.c + p.sorted.d
/-- subdivision.cpp:46. -/
def Part.numInterior (p : Part) : Int := Int.ofNat p.nV - p.interiorOffset

def QState.finish (s : QState) (n : I4) : Part :=
  { idx := ⟨0, 0, 0, 0⟩, sorted := n, nV := s.nV, recs := s.recs.reverse, tris := s.tris.reverse, ok := s.ok }

/-- The recursion depth of `PartitionQuad` given to the model by its entry points.  (Depth 6 is
the largest observed for divisions ≤ 200; `ok` reports exhaustion.) -/
def quadFuel : Nat := 64

/-- The edge vertices pushed by the loops at subdivision.cpp:159-168 / 175-181:
`lerp(vertBary[i], vertBary[(i+1)%k], (double)j / n[i])`, `j = 1 … n[i]-1`. -/
def pushEdgeVerts (s : QState) (n : I4) (k : Nat) : QState :=
  (List.range k).foldl
    (fun (s : QState) i =>
      (List.range ((n.get i).toNat - 1)).foldl
        (fun (s : QState) j => s.pushVert (Recipe.lerp i ((i + 1) % k) (j + 1) (n.get i).toNat)) s) s

/-- subdivision.cpp:142-246 `GetCachedPartition` (the cache itself is a memo table of this pure
function; `idx` is left zero as in the cached objects). -/
def getCachedPartition (dec : Dec) (n : I4) : Part :=
  if n.d > 0 then
    let s : QState := ⟨[], 4, [Recipe.corner 3, Recipe.corner 2, Recipe.corner 1, Recipe.corner 0], true⟩
    let s := pushEdgeVerts s n 4
    let e0 : Int := 4
    let e1 := e0 + n.a - 1
    let e2 := e1 + n.b - 1
    let e3 := e2 + n.c - 1
    let s := partitionQuad dec quadFuel s ⟨0, 1, 2, 3⟩ ⟨e0, e1, e2, e3⟩ ⟨n.a - 1, n.b - 1, n.c - 1, n.d - 1⟩
      ⟨true, true, true, true⟩
    s.finish n
  else
    let s : QState := ⟨[], 3, [Recipe.corner 2, Recipe.corner 1, Recipe.corner 0], true⟩
    let s := pushEdgeVerts s n 3
    let e0 : Int := 3
    let e1 := 3 + n.a - 1
    let e2 := 3 + n.a - 1 + n.b - 1
    let s :=
      if n.b == 1 then
        if n.a == 1 then s.push (0, 1, 2)
        else partitionFan s 0 1 2 (n.a - 1) e0
      else if dec.acute n.a n.b n.c then
        let s := s.push (e1 - 1, 1, e1)
        partitionQuad dec quadFuel s ⟨e1 - 1, e1, 2, 0⟩ ⟨-1, e1 + 1, e2, e0⟩ ⟨0, n.b - 2, n.c - 1, n.a - 2⟩
          ⟨true, true, true, true⟩
      else
        let ns := dec.ns n.a n.b n.c
        let nh := dec.nh n.c ns
        let hOffset : Int := Int.ofNat s.nV
        let s := (List.range (nh.toNat - 1)).foldl
          (fun (s : QState) j => s.pushVert (Recipe.lerp 2 (e0 + ns - 1).toNat (j + 1) nh.toNat)) s
        let s := s.push (e1 - 1, 1, e1)
        let s := partitionQuad dec quadFuel s ⟨e1 - 1, e1, 2, e0 + ns - 1⟩ ⟨-1, e1 + 1, hOffset, e0 + ns⟩
          ⟨0, n.b - 2, nh - 1, n.a - ns - 2⟩ ⟨true, true, true, true⟩
        if n.c == 1 then
          partitionFan s 0 (e0 + ns - 1) 2 (ns - 1) e0
        else if ns == 1 then
          let s := s.push (hOffset, 2, e2)
          partitionQuad dec quadFuel s ⟨hOffset, e2, 0, e0⟩ ⟨-1, e2 + 1, -1, hOffset + nh - 2⟩
            ⟨0, n.c - 2, ns - 1, nh - 2⟩ ⟨true, true, true, false⟩
        else
          let s := s.push (hOffset - 1, 0, e0)
          partitionQuad dec quadFuel s ⟨hOffset - 1, e0, e0 + ns - 1, 2⟩ ⟨-1, e0 + 1, hOffset + nh - 2, e2⟩
            ⟨0, ns - 2, nh - 1, n.c - 2⟩ ⟨true, true, false, true⟩
    s.finish n

/-- subdivision.cpp:53-65: the three compare-and-swaps sorting a triangle's divisions
descending, with the permutation recorded in `triIdx`.  Returns `(sortedDiv, triIdx)`. -/
def sortTri (d : I4) : I4 × I4 :=
  let s := d
  let t : I4 := ⟨0, 1, 2, 3⟩
  let (s, t) := if s.c > s.b then (({ s with b := s.c, c := s.b } : I4), ({ t with b := t.c, c := t.b } : I4)) else (s, t)
  if s.b > s.a then
    let s : I4 := { s with a := s.b, b := s.a }
    let t : I4 := { t with a := t.b, b := t.a }
    if s.c > s.b then (({ s with b := s.c, c := s.b } : I4), ({ t with b := t.c, c := t.b } : I4)) else (s, t)
  else (s, t)

/-- subdivision.cpp:67-77: the rotation that puts the smallest division (ties: smallest
successor) first. -/
def quadMinIdx (d : I4) : Nat :=
  let r := [1, 2, 3].foldl
    (fun (st : Nat × Int × Int) (i : Nat) =>
      let (minIdx, mn, next) := st
      let n := d.get ((i + 1) % 4)
      if d.get i < mn || (d.get i == mn && n < next) then (i, d.get i, n) else (minIdx, mn, next))
    (0, d.get 0, d.get 1)
  r.1

/-- subdivision.cpp:81-85. -/
def rotQuad (d : I4) (minIdx : Nat) : I4 × I4 :=
  let t : I4 := ⟨Int.ofNat ((0 + minIdx) % 4), Int.ofNat ((1 + minIdx) % 4), Int.ofNat ((2 + minIdx) % 4),
    Int.ofNat ((3 + minIdx) % 4)⟩
  (⟨d.get ((0 + minIdx) % 4), d.get ((1 + minIdx) % 4), d.get ((2 + minIdx) % 4), d.get ((3 + minIdx) % 4)⟩, t)

/-- `(sortedDiv, triIdx)` of subdivision.cpp:51-86. -/
def sortDivisions (d : I4) : I4 × I4 :=
  if d.d == 0 then sortTri d else rotQuad d (quadMinIdx d)

/-- subdivision.cpp:48-92 `GetPartition`. -/
def getPartition (dec : Dec) (d : I4) : Part :=
  if d.a == 0 then Part.empty
  else
    let (sd, ti) := sortDivisions d
    { getCachedPartition dec sd with idx := ti }

/-- `Next3` (src/shared.h). -/
def next3 (i : Int) : Int := if i == 2 then 0 else i + 1

/-- subdivision.cpp:96-119: the `newVerts` table of `Reindex`.
Returns `(newVerts, outTriSwapped)`. -/
def reindexVerts (p : Part) (triVerts edgeOffsets : I4) (edgeFwd : B4) (interiorOffset : Int) : List Int × Bool :=
  let mirrored := triVerts.d < 0 && p.idx.b != next3 p.idx.a
  let triIdx : I4 := if mirrored then ⟨p.idx.c, p.idx.a, p.idx.b, p.idx.d⟩ else p.idx
  let edgeFwd := if mirrored then edgeFwd.not else edgeFwd
  let corners := ([0, 1, 2, 3].map fun i => triVerts.get (triIdx.get i).toNat).filter (· ≥ 0)
  let edges := [0, 1, 2, 3].flatMap fun i =>
    let n := p.sorted.get i - 1
    let e := (p.idx.get i).toNat
    let fwd := edgeFwd.get e
    let off0 := edgeOffsets.get e + (if fwd then 0 else n - 1)
    (List.range n.toNat).map fun j => off0 + (if fwd then Int.ofNat j else - Int.ofNat j)
  let nv := corners ++ edges
  let rest := (List.range (p.nV - nv.length)).map fun j => interiorOffset + Int.ofNat j
  (nv ++ rest, mirrored)

/-- subdivision.cpp:121-129: triangles through `newVerts`, first two output slots swapped when
the sorted triangle is a mirror image of the mesh triangle. -/
def reindex (p : Part) (triVerts edgeOffsets : I4) (edgeFwd : B4) (interiorOffset : Int) : List Tri :=
  let (nv, sw) := reindexVerts p triVerts edgeOffsets edgeFwd interiorOffset
  let f := fun (v : Int) => nv.getD v.toNat (-1)
  p.tris.map fun t => if sw then (f t.2.1, f t.1, f t.2.2) else (f t.1, f t.2.1, f t.2.2)

/-! ### Barycentric coordinates -/

class BScalar (α : Type) where
  ofNat : Nat → α
  add : α → α → α
  sub : α → α → α
  mul : α → α → α
  div : α → α → α

instance : BScalar Float where
  ofNat n := Float.ofNat n
  add a b := a + b
  sub a b := a - b
  mul a b := a * b
  div a b := a / b

instance : BScalar Rat where
  ofNat n := (n : Rat)
  add a b := a + b
  sub a b := a - b
  mul a b := a * b
  div a b := a / b

structure V4 (α : Type) where
  x : α
  y : α
  z : α
  w : α
deriving Repr, Inhabited, DecidableEq

section
variable {α : Type} [BScalar α]
open BScalar

/-- `la::lerp(a, b, t) = a * (1 - t) + b * t` componentwise (linalg.h `detail::lerp`). -/
def lerp4 (a b : V4 α) (t : α) : V4 α :=
  let u := sub (ofNat 1) t
  ⟨add (mul a.x u) (mul b.x t), add (mul a.y u) (mul b.y t), add (mul a.z u) (mul b.z t),
   add (mul a.w u) (mul b.w t)⟩

def unit4 (c : Nat) : V4 α :=
  ⟨ofNat (if c == 0 then 1 else 0), ofNat (if c == 1 then 1 else 0), ofNat (if c == 2 then 1 else 0),
   ofNat (if c == 3 then 1 else 0)⟩

/-- Replays the recipes in push order; result reversed (newest first) while building. -/
def evalBaryRev (recs : List Recipe) : List (V4 α) :=
  let zero : V4 α := ⟨ofNat 0, ofNat 0, ofNat 0, ofNat 0⟩
  let (acc, _) := recs.foldl
    (fun (st : List (V4 α) × Nat) r =>
      let (acc, len) := st
      let v : V4 α := match r with
        | Recipe.corner c => unit4 c
        | Recipe.lerp a b num den =>
          -- acc is reversed: entry i sits at position len - 1 - i
          lerp4 (acc.getD (len - 1 - a) zero) (acc.getD (len - 1 - b) zero) (div (ofNat num) (ofNat den))
      (v :: acc, len + 1)) (([] : List (V4 α)), 0)
  acc

/-- `vertBary` of a partition over the scalar type `α`. -/
def evalBary (recs : List Recipe) : List (V4 α) := (evalBaryRev recs).reverse

end

/-! ### Subdivide bookkeeping (subdivision.cpp:564-622) -/

/-- `exclusive_scan(first, last, out, init)`. -/
def exclusiveScan (init : Int) : List Int → List Int
  | [] => []
  | x :: xs => init :: exclusiveScan (init + x) xs

/-- Input of the bookkeeping part of `Subdivide` for one face: the `faceHalfedges` entry resolved
to what the code reads through it — `tri3[i] = halfedge_.Start(halfedges[i])` (`-1` where
`halfedges[i] < 0`), the edge index `half2Edge[halfedges[i]]`, `halfedge_.IsForward(halfedges[i])`.
`first < 0` (`halfedges[0] < 0`) marks the skipped higher triangle of a quad. -/
structure Face where
  verts : I4
  edges : I4
  fwd : B4
deriving Repr, Inhabited

/-- subdivision.cpp:595-601: `divisions[i] = edgeAdded[half2Edge[halfedges[i]]] + 1` where
`halfedges[i] >= 0`, else `0`. -/
def faceDivisions (edgeAdded : List Int) (f : Face) : I4 :=
  let g := fun (i : Nat) => if f.verts.get i ≥ 0 then edgeAdded.getD (f.edges.get i).toNat 0 + 1 else 0
  ⟨g 0, g 1, g 2, g 3⟩

structure SubOut where
  edgeOffset : List Int
  triOffset : List Int
  interiorOffset : List Int
  numVertOut : Int
  triVerts : List Tri
deriving Repr, Inhabited

/-- subdivision.cpp:564-669 (indices only): the exclusive scans of the added edge vertices
(starting at `numVert`), of the sub-triangle counts and of the interior vertex counts (starting
after the edge vertices), and the concatenated re-indexed triangles. -/
def subdivideIdx (dec : Dec) (numVert : Int) (edgeAdded : List Int) (faces : List Face) : SubOut :=
  let edgeOffset := exclusiveScan numVert edgeAdded
  let afterEdges := numVert + edgeAdded.foldl (· + ·) 0
  let parts := faces.map fun f => getPartition dec (faceDivisions edgeAdded f)
  let triOffset := exclusiveScan 0 (parts.map fun p => Int.ofNat p.tris.length)
  let interiorOffset := exclusiveScan afterEdges (parts.map Part.numInterior)
  let total := afterEdges + (parts.map Part.numInterior).foldl (· + ·) 0
  let tris := (List.zip (List.zip faces parts) interiorOffset).flatMap fun fpi =>
    let ((f, p), io) := fpi
    if f.verts.a < 0 then []
    else
      let eo : I4 := ⟨edgeOffset.getD (f.edges.a).toNat 0, edgeOffset.getD (f.edges.b).toNat 0,
        edgeOffset.getD (f.edges.c).toNat 0, edgeOffset.getD (f.edges.d).toNat 0⟩
      reindex p f.verts eo f.fwd io
  { edgeOffset := edgeOffset, triOffset := triOffset, interiorOffset := interiorOffset, numVertOut := total, triVerts := tris }

/-! ### Tolerance scalar logic (src/manifold.cpp:393-435, src/impl.cpp:677-684) -/

class TScalar (α : Type) where
  lt : α → α → Bool

instance : TScalar Float where
  lt a b := decide (a < b)

instance : TScalar Int where
  lt a b := decide (a < b)

/-- `std::max(a, b) = (a < b) ? b : a`. -/
def stdMax {α : Type} [TScalar α] (a b : α) : α := if TScalar.lt a b then b else a

structure TolState (α : Type) where
  epsilon : α
  tolerance : α
deriving Repr

/-- src/manifold.cpp:393-410 `SetTolerance` (scalar part).  Returns the new state and whether
`SimplifyTopology2` runs. -/
def setTolerance {α : Type} [TScalar α] (s : TolState α) (t : α) : TolState α × Bool :=
  if TScalar.lt s.tolerance t then ({ s with tolerance := t }, true)
  else ({ s with tolerance := stdMax s.epsilon t }, false)

/-- src/manifold.cpp:420-435 `Simplify` (scalar part): the tolerance used by the simplification
and the state afterwards (`tolerance_` restored).  `isZero` is `tolerance == 0`. -/
def simplifyTol {α : Type} [TScalar α] (s : TolState α) (t : α) (isZero : Bool) : α × TolState α :=
  let t := if isZero then s.tolerance else t
  (if TScalar.lt s.tolerance t then t else s.tolerance, s)

/-- src/impl.cpp:677-684 `SetEpsilon`: `newEps = MaxEpsilon(minEpsilon, bBox_)` and `minTol` (which is
`newEps`, or `max(newEps, FLT_EPSILON * scale)` with `useSingle`) are computed by the caller. -/
def setEpsilon {α : Type} [TScalar α] (s : TolState α) (newEps : α) (single : Option α) : TolState α :=
  let minTol := match single with
    | none => newEps
    | some f => stdMax newEps f
  { epsilon := newEps, tolerance := stdMax s.tolerance minTol }

end MV.Partition
