/-
Decision table of `Manifold::Impl::Minkowski` (/repo/src/minkowski.cpp) for property C16.
Core Lean only; linked into `mvdriver` (engine `hull`, op `plan`).

`Minkowski(other, inset)` never looks at coordinates to decide WHAT to build: it reads
`IsConvex()` and `IsEmpty()` of both operands, `inset`, and (for the sum with a convex second
operand) whether the origin passes the face-plane test of the second operand.  From these seven
bits it chooses

  * whether to swap the operands                                   (minkowski.cpp:62-67)
  * an early exit returning a copy of the first / second operand   (minkowski.cpp:69-78)
  * the base entry `composedHulls[0]`                              (minkowski.cpp:80-107)
  * one of three constructions for the swept pieces                (minkowski.cpp:109-230)
  * the final `BatchBoolean` operation, Add or Subtract            (minkowski.cpp:231-234)
(line numbers of the tree with patch 01-minkowski-operands applied)

`dispatch` transliterates that control flow; `tools/extract_minkowski.py` re-derives the same
table from the working tree on every run (`MV/Gen/Minkowski.lean`) and
`MV.C16.dispatch_matches_source` compares the two row by row.  What each plan *means* as a point
set, and that it is the Minkowski sum / the erosion, is in `MV/Props/C16.lean`.
-/
namespace MV.Minkowski

/-- the seven bits `Minkowski` branches on (operands named as passed by the caller: `a` = `this`,
`b` = `other`) -/
structure Flags where
  inset : Bool
  aConvex : Bool
  bConvex : Bool
  aEmpty : Bool
  bEmpty : Bool
  /-- every face plane of `a` has the origin on its inner side -/
  originInA : Bool
  /-- every face plane of `b` has the origin on its inner side -/
  originInB : Bool
deriving DecidableEq, Repr, Inhabited

/-- early exits (operands named AFTER the swap) -/
inductive Early where
  | none | copyFirst | copySecond
deriving DecidableEq, Repr, Inhabited

/-- `composedHulls[0]` -/
inductive Base where
  /-- nothing is pushed -/
  | none
  /-- a copy of the first operand -/
  | a
  /-- the first operand translated to the vertex mean of the (convex) second operand -/
  | aAtPointOfB
deriving DecidableEq, Repr, Inhabited

/-- the swept pieces that are united and then added to / subtracted from the base -/
inductive Pieces where
  | none
  /-- one hull of all pairwise vertex sums -/
  | hullAll
  /-- per triangle of the first operand: hull of (its three corners + all vertices of the second) -/
  | perFace
  /-- per pair of triangles: hull of the nine corner sums; optionally a copy of the second operand
  at every vertex of the first, and a copy of the first at every vertex of the second -/
  | facePairs (copiesOfB copiesOfA : Bool)
deriving DecidableEq, Repr, Inhabited

structure Plan where
  swapped : Bool
  early : Early
  base : Base
  pieces : Pieces
  /-- final `BatchBoolean` is `Subtract` (first entry minus the rest) instead of `Add` -/
  subtract : Bool
deriving DecidableEq, Repr, Inhabited

/-- `Manifold::Impl::Minkowski`, control flow only. -/
def dispatch (f : Flags) : Plan :=
  -- `if (!inset && aConvex && !bConvex) { swap(aImpl, bImpl); swap(aConvex, bConvex); }`
  let swapped := !f.inset && f.aConvex && !f.bConvex
  let aC := if swapped then f.bConvex else f.aConvex
  let bC := if swapped then f.aConvex else f.bConvex
  let aE := if swapped then f.bEmpty else f.aEmpty
  let bE := if swapped then f.aEmpty else f.bEmpty
  let o2 := if swapped then f.originInA else f.originInB
  -- `if (bImpl->IsEmpty() || (inset && aImpl->IsEmpty())) return copy of *aImpl`
  if bE || (f.inset && aE) then
    { swapped, early := .copyFirst, base := .none, pieces := .none, subtract := f.inset }
  -- `if (aImpl->IsEmpty()) return copy of *bImpl`
  else if aE then
    { swapped, early := .copySecond, base := .none, pieces := .none, subtract := f.inset }
  else
    -- `if (inset) push(a) else if (bConvex) { originInB ? push(a) : push(a.Translate(c)) }`
    let base : Base :=
      if f.inset then .a else if bC then (if o2 then .a else .aAtPointOfB) else .none
    -- `if (!inset && aConvex && bConvex) … else if ((inset || !aConvex) && bConvex) … else if (!bConvex) …`
    let pieces : Pieces :=
      if !f.inset && aC && bC then .hullAll
      else if (f.inset || !aC) && bC then .perFace
      else if !bC then .facePairs true (!f.inset)
      else .none
    { swapped, early := .none, base, pieces, subtract := f.inset }

/-! canonical encodings shared by the driver, the translator and the table theorem -/

def Early.code : Early → Nat
  | .none => 0 | .copyFirst => 1 | .copySecond => 2
def Base.code : Base → Nat
  | .none => 0 | .a => 1 | .aAtPointOfB => 2
def Pieces.code : Pieces → Nat
  | .none => 0 | .hullAll => 1 | .perFace => 2
  | .facePairs false false => 3 | .facePairs true false => 4
  | .facePairs false true => 5 | .facePairs true true => 6

/-- `[swapped, early, base, pieces, subtract]` -/
def Plan.code (p : Plan) : List Nat :=
  [p.swapped.toNat, p.early.code, p.base.code, p.pieces.code, p.subtract.toNat]

def Flags.ofBits : List Bool → Option Flags
  | [i, ac, bc, ae, be, oa, ob] => some ⟨i, ac, bc, ae, be, oa, ob⟩
  | _ => none

def Flags.bits (f : Flags) : List Bool :=
  [f.inset, f.aConvex, f.bConvex, f.aEmpty, f.bEmpty, f.originInA, f.originInB]

/-- all `2^n` bit vectors of length `n`, first bit slowest (the order of the generated table) -/
def allBits : Nat → List (List Bool)
  | 0 => [[]]
  | n + 1 => [false, true].flatMap fun b => (allBits n).map (b :: ·)

end MV.Minkowski
