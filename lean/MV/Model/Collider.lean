/-
Model of the spatial index of /repo/src/collider.h (Karras 2012 radix tree + BVH) and of
`Box::DoesOverlap` / `Box::Union` / `Box::Transform` in /repo/include/manifold/common.h.
Core Lean only (the driver links against this file).

Conventions
* Morton codes: `Array Nat`, values `< 2^32`, non-decreasing (the caller sorts the leaves).
* Coordinates are `Int` (the driver uses integer lattices, comparisons are exact; nothing below
  uses more than the linear order, except `Box.transform`, which uses `+` and `*`).
* Node numbering exactly as the C++: node `2*i` is leaf `i`, node `2*i+1` is internal `i`,
  the root is node `1` (`kRoot`).  Indices are `Int` where the C++ uses `int` and may step
  outside the array (`PrefixLength(i, -1)`), `Nat` otherwise.
* Undefined behaviour of the C++ is mapped to a defined value that the theorems show is never
  produced on legal input: `__builtin_clz(0)` is modelled as `32` (reached only through
  `PrefixLength(i,i)`, which `CreateRadixTree` never evaluates for sorted codes), reading
  an array out of bounds or an unwritten box makes the functions return `none` / `ok := false`.
* Scheduler nondeterminism: `BuildInternalBoxes` takes the arrival order of the leaves as an
  explicit argument; `CreateRadixTree` writes disjoint cells, it is modelled for the order
  `0,1,…,n-2` (`createRadixTreeOrd` takes any order).
-/
namespace MV.Collider

/-! ## collider_internal constants and node arithmetic (collider.h:33-74) -/

def kInitialLength : Nat := 128
def kLengthMultiple : Nat := 4
def kRoot : Int := 1
/-- size of `int stack[64]` in `FindCollision::operator()` -/
def kStackSize : Nat := 64

def isLeaf (node : Int) : Bool := node % 2 == 0
def isInternal (node : Int) : Bool := node % 2 == 1
/-- `Node2Internal`; only used on nodes `≥ 1`, where C++ truncation and `Int./` agree -/
def node2Internal (node : Int) : Int := (node - 1) / 2
def internal2Node (internal : Int) : Int := internal * 2 + 1
def node2Leaf (node : Int) : Int := node / 2
def leaf2Node (leaf : Int) : Int := leaf * 2

/-! ## Box (common.h:298-455) over `Int` -/

structure Vec3 where
  x : Int
  y : Int
  z : Int
deriving DecidableEq, Repr, Inhabited

structure Box where
  min : Vec3
  max : Vec3
deriving DecidableEq, Repr, Inhabited

/-- `Box::Union(const Box&)`, common.h:372 : componentwise `la::min` / `la::max` -/
def Box.union (a b : Box) : Box :=
  { min := ⟨Min.min a.min.x b.min.x, Min.min a.min.y b.min.y, Min.min a.min.z b.min.z⟩
    max := ⟨Max.max a.max.x b.max.x, Max.max a.max.y b.max.y, Max.max a.max.z b.max.z⟩ }

/-- `Box::DoesOverlap(const Box&)`, common.h:436 : closed intervals on all three axes.
`a` is `*this` (the node box), `b` the argument (the query). -/
def doesOverlapBox (a b : Box) : Bool :=
  decide (a.min.x ≤ b.max.x) && decide (a.min.y ≤ b.max.y) && decide (a.min.z ≤ b.max.z) &&
  decide (a.max.x ≥ b.min.x) && decide (a.max.y ≥ b.min.y) && decide (a.max.z ≥ b.min.z)

/-- `Box::DoesOverlap(vec3 p)`, common.h:445 : the point projected along z, closed intervals
on x and y only. -/
def doesOverlapPoint (a : Box) (p : Vec3) : Bool :=
  decide (p.x ≤ a.max.x) && decide (p.x ≥ a.min.x) && decide (p.y ≤ a.max.y) &&
  decide (p.y ≥ a.min.y)

/-- a `mat3x4` with integer entries, row-major: row `r` is `(m_r0, m_r1, m_r2, m_r3)`;
`transform * vec4(v, 1)` has components `m_r0*v.x + m_r1*v.y + m_r2*v.z + m_r3`. -/
structure Row4 where
  a : Int
  b : Int
  c : Int
  t : Int
deriving DecidableEq, Repr, Inhabited

structure Mat34 where
  r0 : Row4
  r1 : Row4
  r2 : Row4
deriving DecidableEq, Repr, Inhabited

def Row4.apply (r : Row4) (v : Vec3) : Int := r.a * v.x + r.b * v.y + r.c * v.z + r.t

def Mat34.apply (m : Mat34) (v : Vec3) : Vec3 := ⟨m.r0.apply v, m.r1.apply v, m.r2.apply v⟩

/-- one row of `Collider::IsAxisAligned` (collider.h:355): exactly two of the three linear
entries are zero -/
def Row4.axisAligned (r : Row4) : Bool :=
  (if r.a == 0 then 1 else 0) + (if r.b == 0 then 1 else 0) + (if r.c == 0 then 1 else 0) == (2 : Nat)

/-- `Collider::IsAxisAligned` -/
def Mat34.isAxisAligned (m : Mat34) : Bool :=
  m.r0.axisAligned && m.r1.axisAligned && m.r2.axisAligned

/-- `Box::Transform`, common.h:386 -/
def Box.transform (m : Mat34) (b : Box) : Box :=
  let minT := m.apply b.min
  let maxT := m.apply b.max
  { min := ⟨Min.min minT.x maxT.x, Min.min minT.y maxT.y, Min.min minT.z maxT.z⟩
    max := ⟨Max.max minT.x maxT.x, Max.max minT.y maxT.y, Max.max minT.z maxT.z⟩ }

/-! ## CreateRadixTree (collider.h:76-159) -/

/-- number of significant bits -/
def bitLen (x : Nat) : Nat := if x = 0 then 0 else x.log2 + 1

/-- `__builtin_clz` on `uint32_t` (`clz32 0 = 32`, see the header comment) -/
def clz32 (x : Nat) : Nat := 32 - bitLen x

/-- `leafMorton_[i]` -/
def code (codes : Array Nat) (i : Int) : Nat := codes.getD i.toNat 0

/-- `int PrefixLength(int i, int j)`, collider.h:92-105 -/
def prefixLength (codes : Array Nat) (i j : Int) : Int :=
  if j < 0 ∨ j ≥ (codes.size : Int) then -1
  else if code codes i = code codes j then
    -- use index to disambiguate
    32 + (clz32 (i.toNat ^^^ j.toNat) : Int)
  else (clz32 (code codes i ^^^ code codes j) : Int)

/-- the `while` loop of `RangeEnd` (collider.h:114); `fuel` bounds the number of
multiplications (`rangeEnd` passes `codes.size`, which always suffices since
`128 * 4^k > k`). -/
def growLength (codes : Array Nat) (i dir commonPrefix : Int) : Nat → Nat → Nat
  | 0, maxLength => maxLength
  | fuel + 1, maxLength =>
    if prefixLength codes i (i + dir * (maxLength : Int)) > commonPrefix then
      growLength codes i dir commonPrefix fuel (maxLength * kLengthMultiple)
    else maxLength

/-- the `for (step = max_length / 2; step > 0; step /= 2)` loop of `RangeEnd`
(collider.h:118-121) -/
def searchLength (codes : Array Nat) (i dir commonPrefix : Int) (step length : Nat) : Nat :=
  if h : step > 0 then
    let length' :=
      if prefixLength codes i (i + dir * ((length + step : Nat) : Int)) > commonPrefix then
        length + step
      else length
    searchLength codes i dir commonPrefix (step / 2) length'
  else length
termination_by step
decreasing_by omega

/-- `(dir > 0) - (dir < 0)` -/
def sign (d : Int) : Int := (if d > 0 then 1 else 0) - (if d < 0 then 1 else 0)

/-- `int RangeEnd(int i)`, collider.h:107-123 -/
def rangeEnd (codes : Array Nat) (i : Int) : Int :=
  let dir := sign (prefixLength codes i (i + 1) - prefixLength codes i (i - 1))
  let commonPrefix := prefixLength codes i (i - dir)
  let maxLength := growLength codes i dir commonPrefix codes.size kInitialLength
  let length := searchLength codes i dir commonPrefix (maxLength / 2) 0
  i + dir * (length : Int)

/-- the `do … while (step > 1)` loop of `FindSplit` (collider.h:131-138) -/
def splitLoop (codes : Array Nat) (first last commonPrefix : Int) (step : Nat) (split : Int) :
    Int :=
  let step' := (step + 1) / 2
  let newSplit := split + (step' : Int)
  let split' :=
    if newSplit < last ∧ prefixLength codes first newSplit > commonPrefix then newSplit
    else split
  if _h : step' > 1 then splitLoop codes first last commonPrefix step' split' else split'
termination_by step
decreasing_by omega

/-- `int FindSplit(int first, int last)`, collider.h:125-140 -/
def findSplit (codes : Array Nat) (first last : Int) : Int :=
  splitLoop codes first last (prefixLength codes first last) (last - first).toNat first

/-- `CreateRadixTree::operator()(int internal)` up to the two children (collider.h:142-151) -/
def radixNode (codes : Array Nat) (internal : Nat) : Int × Int :=
  let first : Int := internal
  let last := rangeEnd codes first
  let fl : Int × Int := if first > last then (last, first) else (first, last)
  let split := findSplit codes fl.1 fl.2
  let child1 := if split = fl.1 then leaf2Node split else internal2Node split
  let split := split + 1
  let child2 := if split = fl.2 then leaf2Node split else internal2Node split
  (child1, child2)

/-- the two `nodeParent_[child] = node` writes (collider.h:155-157); a write outside the
array (never happens for sorted codes) is dropped -/
def recordParent (codes : Array Nat) (parent : Array Int) (internal : Nat) : Array Int :=
  let c := radixNode codes internal
  let node := internal2Node internal
  if c.1 < 0 ∨ c.2 < 0 then parent
  else (parent.setIfInBounds c.1.toNat node).setIfInBounds c.2.toNat node

/-- The constructor's `for_each_n(…, NumInternal(), CreateRadixTree{…})` (collider.h:276-281)
executed in the order `order` (a permutation of `0 … n-2`).  Returns
`(internalChildren_, nodeParent_)`; both start filled with `-1` as in the C++. -/
def createRadixTreeOrd (codes : Array Nat) (order : List Nat) : Array (Int × Int) × Array Int :=
  let n := codes.size
  let children0 : Array (Int × Int) := Array.replicate (n - 1) (-1, -1)
  let parent0 : Array Int := Array.replicate (2 * n - 1) (-1)
  (order.foldl (fun ch i => ch.setIfInBounds i (radixNode codes i)) children0,
   order.foldl (recordParent codes) parent0)

/-- `createRadixTreeOrd` for the sequential order -/
def createRadixTree (codes : Array Nat) : Array (Int × Int) × Array Int :=
  createRadixTreeOrd codes (List.range (codes.size - 1))

/-! ## BuildInternalBoxes / UpdateBoxes (collider.h:219-235, 290-303) -/

/-- `nodeBBox_` (with `none` = not yet written: `resize_nofill` / stale), `counter_`, and a flag
that is cleared when the kernel reads an unwritten box or indexes outside an array. -/
structure BState where
  boxes : Array (Option Box)
  counter : Array Nat
  ok : Bool
deriving Repr, Inhabited

def BState.fail (st : BState) : BState := { st with ok := false }

/-- read `nodeBBox_[node]`; `none` if out of range or not yet written -/
def BState.read (st : BState) (node : Int) : Option Box :=
  if node < 0 then none else (st.boxes[node.toNat]?).join

/-- `BuildInternalBoxes::operator()(int leaf)` from the `do` on, collider.h:227-233.
`AtomicAdd(counter_[internal], 1) == 0` : the first arrival returns, the second computes. -/
def leafWalk (parent : Array Int) (children : Array (Int × Int)) :
    Nat → Int → BState → BState
  | 0, _, st => st.fail
  | fuel + 1, node, st =>
    if node < 0 then st.fail else
    match parent[node.toNat]? with
    | none => st.fail
    | some p =>
      if p < 1 then st.fail else
      let internal := (node2Internal p).toNat
      match st.counter[internal]?, children[internal]? with
      | some c, some (c1, c2) =>
        let st1 := { st with counter := st.counter.setIfInBounds internal (c + 1) }
        if c == 0 then st1 else
        match st1.read c1, st1.read c2 with
        | some a, some b =>
          if p.toNat < st1.boxes.size then
            let st2 := { st1 with boxes := st1.boxes.setIfInBounds p.toNat (some (a.union b)) }
            if p != kRoot then leafWalk parent children fuel p st2 else st2
          else st1.fail
        | _, _ => st1.fail
      | _, _ => st.fail

/-- the kernel over the leaves in arrival order `order` -/
def buildInternalBoxes (parent : Array Int) (children : Array (Int × Int)) (order : List Nat)
    (st : BState) : BState :=
  order.foldl (fun st (leaf : Nat) =>
    if st.ok then leafWalk parent children parent.size (leaf2Node (leaf : Int)) st else st) st

/-- `copy(leafBB, leaves)` + `Vec<int> counter(NumInternal(), 0)`; the internal boxes are
marked unwritten -/
def initBState (leafBB : Array Box) : BState :=
  let n := leafBB.size
  { boxes := (Array.range (2 * n - 1)).map fun i => if i % 2 = 0 then leafBB[i / 2]? else none
    counter := Array.replicate (n - 1) 0
    ok := true }

/-- `Collider::UpdateBoxes`; `NumLeaves()` is `0` when `internalChildren_` is empty, so the
kernel does not run for fewer than two leaves -/
def updateBoxes (parent : Array Int) (children : Array (Int × Int)) (leafBB : Array Box)
    (order : List Nat) : BState :=
  if children.size = 0 then initBState leafBB
  else buildInternalBoxes parent children order (initBState leafBB)

/-- the initialised `nodeBBox_` (unwritten cells read as the default box; the theorems show
there are none) -/
def BState.final (st : BState) : Array Box := st.boxes.map fun o => o.getD default

/-- `Collider::Transform` (collider.h:305-313) -/
def transformBoxes (m : Mat34) (boxes : Array Box) : Array Box := boxes.map (Box.transform m)

/-! ## FindCollision (collider.h:161-217) -/

/-- `RecordCollision`.  `ov` is `fun box => box.DoesOverlap(query)`.  Returns the traverse flag
and the extended output; `none` when `node` is outside `nodeBBox_`. -/
def recordCollision (boxes : Array Box) (ov : Box → Bool) (self : Bool) (queryIdx : Nat)
    (node : Int) (out : Array Nat) : Option (Bool × Array Nat) :=
  if node < 0 then none else
  match boxes[node.toNat]? with
  | none => none
  | some box =>
    let overlaps := ov box
    let leafIdx := (node2Leaf node).toNat
    let out' :=
      if overlaps && isLeaf node && (!self || leafIdx != queryIdx) then out.push leafIdx
      else out
    some (overlaps && isInternal node, out')

/-- the `while (1)` loop; `stack` has its top at the head.  `none` = fuel exhausted, an index
outside an array, or a push onto a full `int stack[64]`. -/
def findLoop (children : Array (Int × Int)) (boxes : Array Box) (ov : Box → Bool) (self : Bool)
    (queryIdx : Nat) : Nat → Int → List Int → Array Nat → Option (Array Nat)
  | 0, _, _, _ => none
  | fuel + 1, node, stack, out =>
    if node < 1 then none else
    match children[(node2Internal node).toNat]? with
    | none => none
    | some (child1, child2) =>
      match recordCollision boxes ov self queryIdx child1 out with
      | none => none
      | some (traverse1, out1) =>
        match recordCollision boxes ov self queryIdx child2 out1 with
        | none => none
        | some (traverse2, out2) =>
          if !traverse1 && !traverse2 then
            match stack with
            | [] => some out2
            | s :: rest => findLoop children boxes ov self queryIdx fuel s rest out2
          else
            let next := if traverse1 then child1 else child2
            if traverse1 && traverse2 then
              if stack.length ≥ kStackSize then none
              else findLoop children boxes ov self queryIdx fuel next (child2 :: stack) out2
            else findLoop children boxes ov self queryIdx fuel next stack out2

/-- `FindCollision::operator()(queryIdx)` for a query given by its overlap test; the leaves are
returned in the order `recorder.record` is called.  `Collider::Collisions` returns at once when
`internalChildren_` is empty (fewer than two leaves).  The loop runs once per visited internal
node, so `children.size` iterations suffice. -/
def findCollision (children : Array (Int × Int)) (boxes : Array Box) (ov : Box → Bool)
    (self : Bool) (queryIdx : Nat) : Option (Array Nat) :=
  if children.size = 0 then some #[]
  else findLoop children boxes ov self queryIdx children.size kRoot [] #[]

/-- box query -/
def findCollisionBox (children : Array (Int × Int)) (boxes : Array Box) (self : Bool)
    (queryIdx : Nat) (q : Box) : Option (Array Nat) :=
  findCollision children boxes (fun b => doesOverlapBox b q) self queryIdx

/-- point query (`DoesOverlap(vec3)`) -/
def findCollisionPoint (children : Array (Int × Int)) (boxes : Array Box) (self : Bool)
    (queryIdx : Nat) (p : Vec3) : Option (Array Nat) :=
  findCollision children boxes (fun b => doesOverlapPoint b p) self queryIdx

/-! ## the abstract tree read back from the arrays, and the decidable well-formedness check -/

/-- binary tree with leaf indices and internal indices -/
inductive T where
  | leaf (i : Nat) : T
  | node (k : Nat) (l r : T) : T
deriving Repr, Inhabited, DecidableEq

/-- node number -/
def T.id : T → Int
  | .leaf i => 2 * (i : Int)
  | .node k _ _ => 2 * (k : Int) + 1

def T.isNode : T → Bool
  | .leaf _ => false
  | .node _ _ _ => true

def T.height : T → Nat
  | .leaf _ => 0
  | .node _ l r => 1 + Nat.max l.height r.height

/-- leaves, left to right -/
def T.leaves : T → List Nat
  | .leaf i => [i]
  | .node _ l r => l.leaves ++ r.leaves

/-- internal indices, pre-order -/
def T.internals : T → List Nat
  | .leaf _ => []
  | .node k l r => k :: (l.internals ++ r.internals)

def T.first : T → Nat
  | .leaf i => i
  | .node _ l _ => l.first

def T.last : T → Nat
  | .leaf i => i
  | .node _ _ r => r.last

/-- unfold the arrays from `node` to depth `fuel - 1` -/
def toTree (children : Array (Int × Int)) : Nat → Int → Option T
  | 0, _ => none
  | fuel + 1, node =>
    if node < 0 then none
    else if node % 2 = 0 then some (.leaf (node / 2).toNat)
    else
      match children[((node - 1) / 2).toNat]? with
      | none => none
      | some (c1, c2) =>
        match toTree children fuel c1, toTree children fuel c2 with
        | some l, some r => some (.node ((node - 1) / 2).toNat l r)
        | _, _ => none

/-- the block structure of the Karras tree: the subtree covers exactly `[f, l]`; an internal
node's index is one end of its block; the left child of a split at `γ` is leaf `γ` or internal
`γ`, the right child is leaf `γ+1` or internal `γ+1`. -/
def T.cover : T → Nat → Nat → Bool
  | .leaf i, f, l => f == i && l == i
  | .node k a b, f, l =>
    decide (f < l) && (k == f || k == l) && a.cover f a.last && b.cover (a.last + 1) l &&
    (match a with | .leaf _ => true | .node ka _ _ => ka == a.last) &&
    (match b with | .leaf _ => true | .node kb _ _ => kb == a.last + 1)

/-- `nodeParent_` agrees with the tree below `t` -/
def T.parentOk (parent : Array Int) : T → Bool
  | .leaf _ => true
  | .node k a b =>
    parent[a.id.toNat]? == some (2 * (k : Int) + 1) &&
    parent[b.id.toNat]? == some (2 * (k : Int) + 1) &&
    a.parentOk parent && b.parentOk parent

/-- Decidable well-formedness of `(internalChildren_, nodeParent_)` for `n` leaves: the arrays
unfold from the root (depth ≤ 64) to a tree whose blocks tile `[0, n-1]` as in Karras' tree, and
the parent array is the inverse of the children array (root's parent unset). -/
def wfTree (children : Array (Int × Int)) (parent : Array Int) (n : Nat) : Bool :=
  decide (2 ≤ n) && children.size == n - 1 && parent.size == 2 * n - 1 &&
  match toTree children 65 kRoot with
  | none => false
  | some t => t.cover 0 (n - 1) && t.parentOk parent && parent[1]? == some (-1)

/-- Decidable union-box invariant: leaf cells hold the leaf boxes and every internal cell is
the union of its two children's cells. -/
def unionBoxes (children : Array (Int × Int)) (boxes : Array Box) (leafBB : Array Box)
    (n : Nat) : Bool :=
  boxes.size == 2 * n - 1 && leafBB.size == n &&
  (List.range n).all (fun i => boxes[2 * i]? == leafBB[i]?) &&
  (List.range (n - 1)).all (fun k =>
    match children[k]? with
    | none => false
    | some (c1, c2) =>
      decide (0 ≤ c1) && decide (0 ≤ c2) &&
      match boxes[2 * k + 1]?, boxes[c1.toNat]?, boxes[c2.toNat]? with
      | some b, some b1, some b2 => b == b1.union b2
      | _, _, _ => false)

/-- componentwise union of a non-empty list of boxes (`none` for the empty list) -/
def unionList : List Box → Option Box
  | [] => none
  | b :: bs => match unionList bs with
    | none => some b
    | some u => some (b.union u)

/-- codes are non-decreasing and fit in 32 bits -/
def sortedCodes (codes : Array Nat) : Bool :=
  codes.toList.all (· < 2 ^ 32) &&
  (List.range (codes.size - 1)).all (fun i => codes.getD i 0 ≤ codes.getD (i + 1) 0)

end MV.Collider
