/-
Discrete model of the MeshGL exporter `GetMeshGLImpl` (/repo/src/impl.h:534-707) and of the
discrete part of the importer `Impl::Impl(const MeshGLP&)` (/repo/src/impl.h:307-532).
Core Lean only; everything is executable and linked into `mvdriver` (engine `export`).

Floating point data never enters the model: positions, property rows, tangents and transforms
are OPAQUE PAYLOADS (a type parameter `τ`, instantiated by the driver with the IEEE bit
patterns / 64-bit content hashes dumped by the harness).  The model only says WHICH payload is
written WHERE.

  TriRef, Rel, RelMap          `TriRef` (shared.h:321), `Impl::Relation` (impl.h:29),
                               `std::map<int, Relation> meshIDtransform` as an association
                               list with strictly ascending keys (iteration order of std::map)
  runLE, sortIdx               the `std::stable_sort` of `triNew2Old` by (originalID, meshID)
                               (impl.h:571-578); `List.mergeSort` is stable, and the stable
                               sorted permutation is unique
  runsFrom, exportRuns         the run loop (impl.h:600-636): `addRun` whenever `meshID != lastID`,
                               the relation looked up in a COPY of the map and erased from it,
                               then one trailing empty run per relation left in the copy
  exportFaceID                 `ref.faceID >= 0 ? ref.faceID : ref.coplanarID` (impl.h:625)
  cornerStep, exportVerts      prop-vert duplication (impl.h:649-704): `vertPropPair[vert]`
                               bins of (prop, idx), first-seen `vert2idx`, mergeFrom/mergeTo
  cornerSpec, exportVertsSpec  the same over one flat list (specification used by the theorems;
                               `MV/Proof/Export.lean` proves the two agree)
  exportTangents(Fixed)        FIXED code (patches/fix_C08_tangents.diff): tangent of halfedge
                               `3*new+i` := internal tangent `3*triNew2Old[new]+i`
  exportTangentsPinned         pinned tree (impl.h:555-563): copied in internal order
  importRuns                   impl.h:417-463: runIndex normalisation, `meshID = startID + i`,
                               per-triangle `triRef`, relation table
  importTris                   impl.h:378-391 and 465-494: merge map, degenerate-triangle drop
-/
namespace MV.Export

/-! ## vocabulary -/

/-- `struct TriRef` (/repo/src/shared.h:321): C++ `int` fields -/
structure TriRef where
  meshID : Int
  originalID : Int
  faceID : Int
  coplanarID : Int
deriving Repr, DecidableEq, Inhabited

/-- `Impl::Relation` (/repo/src/impl.h:29); the transform is an opaque payload -/
structure Rel (τ : Type) where
  originalID : Int
  transform : τ
  backSide : Bool
  hasNormals : Bool
deriving Repr, DecidableEq

/-- a default-constructed `Relation`: `originalID = -1`, identity, no flags -/
def Rel.dflt {τ : Type} (idT : τ) : Rel τ := ⟨-1, idT, false, false⟩

/-- `std::map<int, Relation>`: association list, keys strictly ascending -/
abbrev RelMap (τ : Type) := List (Int × Rel τ)

variable {τ : Type}

def RelMap.keys (m : RelMap τ) : List Int := m.map (·.1)

/-- `m.find(k)` -/
def RelMap.lookup (m : RelMap τ) (k : Int) : Option (Rel τ) :=
  (m.find? (fun kv => kv.1 == k)).map (·.2)

/-- `m.erase(k)` -/
def RelMap.erase (m : RelMap τ) (k : Int) : RelMap τ := m.filter (fun kv => kv.1 != k)

/-- `m[k] = v` (insert or overwrite), keeping the keys ascending -/
def RelMap.insert : RelMap τ → Int → Rel τ → RelMap τ
  | [], k, v => [(k, v)]
  | (k', v') :: m, k, v =>
      if k < k' then (k, v) :: (k', v') :: m
      else if k = k' then (k, v) :: m
      else (k', v') :: RelMap.insert m k v

/-- keys strictly ascending (the representation invariant of `std::map`) -/
def RelMap.Sorted (m : RelMap τ) : Prop := (m.map (·.1)).Pairwise (· < ·)

/-! ## sorting the triangles into runs -/

/-- `¬ less b a` for the comparator of impl.h:573-577
`less a b := a.originalID == b.originalID ? a.meshID < b.meshID : a.originalID < b.originalID` -/
def runLE (a b : TriRef) : Bool :=
  if a.originalID = b.originalID then decide (a.meshID ≤ b.meshID)
  else decide (a.originalID < b.originalID)

/-- `triNew2Old` paired with the refs: `std::iota` + `std::stable_sort` (originals are not
sorted: impl.h:570 `if (!isOriginal)`) -/
def sortIdx (isOriginal : Bool) (refs : List TriRef) : List (TriRef × Nat) :=
  if isOriginal then refs.zipIdx else refs.zipIdx.mergeSort (fun a b => runLE a.1 b.1)

/-- one emitted run: first triangle (NOT multiplied by 3), the meshID that opened it (not
exported by the C++; kept for the theorems), and the relation written by `addRun` -/
structure Run (τ : Type) where
  start : Nat
  meshID : Int
  rel : Rel τ
deriving Repr, DecidableEq

/-- The loop impl.h:617-633 over the triangles in NEW order, from triangle `tri` on, with the
current `lastID` and the current copy `m` of `meshIDtransform`.  Returns the runs opened and
what is left of the copy. -/
def runsFrom (dflt : Rel τ) : List TriRef → Nat → Int → RelMap τ → List (Run τ) × RelMap τ
  | [], _, _, m => ([], m)
  | r :: rs, tri, lastID, m =>
      if r.meshID ≠ lastID then
        let rel := (RelMap.lookup m r.meshID).getD dflt
        let res := runsFrom dflt rs (tri + 1) r.meshID (RelMap.erase m r.meshID)
        (⟨tri, r.meshID, rel⟩ :: res.1, res.2)
      else runsFrom dflt rs (tri + 1) lastID m

/-- `ref.faceID >= 0 ? ref.faceID : ref.coplanarID` -/
def exportFaceID (r : TriRef) : Int := if 0 ≤ r.faceID then r.faceID else r.coplanarID

/-- `flags = (backSide ? 1 : 0) | (hasNormals ? 2 : 0)` -/
def relFlags (r : Rel τ) : Nat := (if r.backSide then 1 else 0) + (if r.hasNormals then 2 else 0)

structure RunTable (τ : Type) where
  isOriginal : Bool
  numTri : Nat
  /-- `triNew2Old` -/
  triNew2Old : List Nat
  /-- the refs in new order -/
  sorted : List TriRef
  /-- non-empty runs, then the trailing empty ones (`start = numTri`) -/
  runs : List (Run τ)
deriving Repr

/-- `GetMeshGLImpl`, run part.  `idT` is the payload of the identity transform. -/
def exportRuns (isOriginal : Bool) (idT : τ) (refs : List TriRef) (m : RelMap τ) : RunTable τ :=
  let si := sortIdx isOriginal refs
  let sorted := si.map (·.1)
  let res := runsFrom (Rel.dflt idT) sorted 0 (-1) m
  -- "Add runs for originals that did not contribute any faces to the output"
  let trailing := res.2.map fun kv => (⟨refs.length, kv.1, kv.2⟩ : Run τ)
  { isOriginal, numTri := refs.length, triNew2Old := si.map (·.2), sorted, runs := res.1 ++ trailing }

def RunTable.runIndex (rt : RunTable τ) : List Nat :=
  rt.runs.map (fun r => 3 * r.start) ++ [3 * rt.numTri]
def RunTable.runOriginalID (rt : RunTable τ) : List Int := rt.runs.map (·.rel.originalID)
def RunTable.runFlags (rt : RunTable τ) : List Nat := rt.runs.map (relFlags ·.rel)
def RunTable.runMeshID (rt : RunTable τ) : List Int := rt.runs.map (·.meshID)
/-- `runTransform` is not written for originals (impl.h:592) -/
def RunTable.runTransform (rt : RunTable τ) : List τ :=
  if rt.isOriginal then [] else rt.runs.map (·.rel.transform)
def RunTable.faceID (rt : RunTable τ) : List Int := rt.sorted.map exportFaceID

/-! ## property-vertex duplication -/

/-- the corners in export order: halfedge `3*old+i` of triangle `old = triNew2Old[new]`,
as (position vertex `halfedge_.Start`, property vertex `halfedge_.Prop`) -/
def cornersOf (he : Array (Nat × Nat)) (order : List Nat) : List (Nat × Nat) :=
  order.flatMap fun old => [he.getD (3 * old) (0, 0), he.getD (3 * old + 1) (0, 0), he.getD (3 * old + 2) (0, 0)]

/-- The triangles in the order the vertex loop visits them: `for run: for tri in
[runIndex[run]/3, runIndex[run+1]/3)` (impl.h:654-656).  By `runs_partition` this is
`0, 1, …, numTri-1`. -/
def runOrder (runIndex : List Nat) : List Nat :=
  (runIndex.zip runIndex.tail).flatMap fun ab => List.range' (ab.1 / 3) (ab.2 / 3 - ab.1 / 3)

structure VState where
  /-- `vertPropPair[vert]`: (prop, idx) in insertion order -/
  bins : Array (List (Nat × Nat))
  vert2idx : Array (Option Nat)
  /-- one entry per output vertex `idx`: (position vertex, property vertex) whose payloads are
  pushed to `vertProperties` -/
  out : Array (Nat × Nat)
  triVerts : Array Nat
  mergeFrom : Array Nat
  mergeTo : Array Nat
deriving Repr

def VState.init (numVert : Nat) : VState :=
  ⟨Array.replicate numVert [], Array.replicate numVert none, #[], #[], #[], #[]⟩

/-- body of the innermost loop, impl.h:657-702 (without the normal update) -/
def cornerStep (s : VState) (c : Nat × Nat) : VState :=
  let vert := c.1; let prop := c.2
  let bin := s.bins.getD vert []
  match bin.find? (fun b => b.1 == prop) with
  | some b => { s with triVerts := s.triVerts.push b.2 }
  | none =>
    let idx := s.out.size
    let s := { s with triVerts := s.triVerts.push idx,
                      bins := s.bins.setIfInBounds vert (bin ++ [(prop, idx)]),
                      out := s.out.push (vert, prop) }
    match s.vert2idx.getD vert none with
    | none => { s with vert2idx := s.vert2idx.setIfInBounds vert (some idx) }
    | some to => { s with mergeFrom := s.mergeFrom.push idx, mergeTo := s.mergeTo.push to }

def exportVerts (numVert : Nat) (corners : List (Nat × Nat)) : VState :=
  corners.foldl cornerStep (VState.init numVert)

/-- flat-list specification of the same loop: `out[idx] = (vert, prop)`, an existing output
vertex is reused iff it has the same (vert, prop); a new one is merged to the FIRST output
vertex of the same position vertex -/
structure VSpec where
  out : List (Nat × Nat)
  triVerts : List Nat
  merges : List (Nat × Nat)
deriving Repr, DecidableEq

def cornerSpec (s : VSpec) (c : Nat × Nat) : VSpec :=
  match s.out.findIdx? (fun o => o == c) with
  | some idx => { s with triVerts := s.triVerts ++ [idx] }
  | none =>
    let idx := s.out.length
    { out := s.out ++ [c], triVerts := s.triVerts ++ [idx],
      merges := match s.out.findIdx? (fun o => o.1 == c.1) with
        | some to => s.merges ++ [(idx, to)]
        | none => s.merges }

def exportVertsSpec (corners : List (Nat × Nat)) : VSpec :=
  corners.foldl cornerSpec ⟨[], [], []⟩

/-- `numProp == 0` early return (impl.h:638-647): `triVerts = halfedge_.Start`, one output
vertex per position vertex, no merge vectors -/
def exportVertsNoProp (corners : List (Nat × Nat)) : List Nat := corners.map (·.1)

/-! ## tangents -/

/-- FIXED exporter: `out.halfedgeTangent[3*new+i] = halfedgeTangent_[3*triNew2Old[new]+i]` -/
def exportTangents (dflt : τ) (tang : Array τ) (order : List Nat) : List τ :=
  order.flatMap fun old => [tang.getD (3 * old) dflt, tang.getD (3 * old + 1) dflt, tang.getD (3 * old + 2) dflt]

/-- the whole FIXED loop: the permutation is applied iff `halfedgeTangent_.size() == 3 * numTri`
(always so for a non-empty tangent array; an empty array exports an empty array) -/
def exportTangentsFixed (dflt : τ) (tang : Array τ) (order : List Nat) : List τ :=
  if tang.size = 3 * order.length then exportTangents dflt tang order else tang.toList

/-- PINNED exporter (impl.h:555-563): `out.halfedgeTangent[i] = halfedgeTangent_[i]` -/
def exportTangentsPinned (tang : Array τ) (_order : List Nat) : List τ := tang.toList

/-! ## import (discrete part) -/

/-- runIndex normalisation, impl.h:417-426 -/
def normRunIndex (runIndex : List Nat) (numRunID : Nat) (runEnd : Nat) : List Nat :=
  if runIndex.isEmpty then [0, runEnd]
  else if runIndex.length = numRunID then runIndex ++ [runEnd]
  else if runIndex.length = 1 then runIndex ++ [runEnd]
  else runIndex

structure ImportIn (τ : Type) where
  numTri : Nat
  runIndex : List Nat
  runOriginalID : List Int
  runFlags : List Nat
  runTransform : List τ
  faceID : List Int

/-- what `ReserveIDs(max(1, runOriginalID.size()))` hands out -/
def importNumIDs (runOriginalID : List Int) : Nat := max 1 runOriginalID.length

/-- the refs written for run `i`: triangles `[runIndex[i]/3, runIndex[i+1]/3)` -/
def importRunTris (a : Array TriRef) (faceID : List Int) (meshID originalID : Int) (lo hi : Nat) : Array TriRef :=
  (List.range' lo (hi - lo)).foldl (fun a tri =>
    a.setIfInBounds tri ⟨meshID, originalID, if faceID.isEmpty then -1 else faceID.getD tri 0, tri⟩) a

/-- impl.h:428-463.  `numExtraProp = meshGL.numProp - 3` (hasNormals needs ≥ 3 extra channels).
Triangles no run covers keep the placeholder `default` (uninitialised memory in the C++). -/
def importRuns (idT : τ) (startID : Int) (numExtraProp : Nat) (inp : ImportIn τ) : List TriRef × RelMap τ :=
  let runIndex := normRunIndex inp.runIndex inp.runOriginalID.length (3 * inp.numTri)
  let runOriginalID := if inp.runOriginalID.isEmpty then [startID] else inp.runOriginalID
  let step := fun (st : Array TriRef × RelMap τ) (io : Nat × Int) =>
    let i := io.1; let originalID := io.2
    let meshID := startID + i
    let backside := inp.runFlags.getD i 0 % 2 == 1
    let runHasN := (inp.runFlags.getD i 0 / 2 % 2 == 1) && decide (3 ≤ numExtraProp)
    let refs := importRunTris st.1 inp.faceID meshID originalID (runIndex.getD i 0 / 3) (runIndex.getD (i + 1) 0 / 3)
    let rel : Rel τ := if inp.runTransform.isEmpty then ⟨originalID, idT, false, runHasN⟩
      else ⟨originalID, inp.runTransform.getD i idT, backside, runHasN⟩
    (refs, RelMap.insert st.2 meshID rel)
  let res := (runOriginalID.zipIdx.map fun oi => (oi.2, oi.1)).foldl step (Array.replicate inp.numTri default, [])
  (res.1.toList, res.2)

/-- the importer applied to an exported run table -/
def ImportIn.ofExport (rt : RunTable τ) : ImportIn τ :=
  ⟨rt.numTri, rt.runIndex, rt.runOriginalID, rt.runFlags, rt.runTransform, rt.faceID⟩

/-- impl.h:378-391: `prop2vert` (empty when there are no merge vectors) read at `v` -/
def prop2vert (numVert : Nat) (mergeFrom mergeTo : List Nat) : Array Nat :=
  (mergeFrom.zip mergeTo).foldl (fun m ft => m.setIfInBounds ft.1 ft.2) (Array.range numVert)

/-- impl.h:471-494: triangles (as property-vertex triples) that survive, with their
position-vertex triples and refs; a triangle is dropped when two of its MERGED corners agree -/
def importTris (numVert : Nat) (mergeFrom mergeTo : List Nat) (tris : List (Nat × Nat × Nat)) (refs : List TriRef) :
    List ((Nat × Nat × Nat) × (Nat × Nat × Nat) × TriRef) :=
  let p2v := prop2vert numVert mergeFrom mergeTo
  let f := fun v => p2v.getD v v
  (tris.zip refs).filterMap fun tr =>
    let t := tr.1
    let v : Nat × Nat × Nat := (f t.1, f t.2.1, f t.2.2)
    if v.1 ≠ v.2.1 ∧ v.2.1 ≠ v.2.2 ∧ v.2.2 ≠ v.1 then some (t, v, tr.2) else none

end MV.Export
