/-
C20 — the C binding (bindings/c/*.cpp) as data.

`MV/Gen/CBind.lean` (regenerated on every run by tools/extract_cbind.py from the clang AST of
bindings/c/manifoldc.cpp, cross.cpp, box.cpp, rect.cpp, conv.cpp and the headers) instantiates the
structures below; `MV/Props/C20.lean` proves the table theorems over that instance by `decide`.

Identifiers.  String functions (`String.toList`, `toLower`, …) do not reduce in the kernel in
reasonable time on Lean 4.33 (strings are byte arrays), so every identifier that a theorem computes
on is a list of code points.  They are still *written* as string literals: `c!"radius_low"` is a
macro that expands, at elaboration time, to the literal `[114, 97, …]`.

This file also contains the boolean checkers the theorems are stated with.  Each checker is a total
function over the tables; what it means for the C++ is spelled out in MV/Props/C20.lean.
-/

namespace MV.CBind

/-- an identifier / type spelling as a list of Unicode code points -/
abbrev Ident := List Nat

open Lean in
/-- `c!"abc"` = `[97, 98, 99]` -/
macro "c!" s:str : term => do
  let cs := s.getString.toList
  let elems ← cs.toArray.mapM fun c => `(nat_lit $(Syntax.mkNumLit (toString c.toNat)))
  `(([$elems,*] : List Nat))

def Ident.toString (i : Ident) : String := String.ofList (i.map Char.ofNat)

/-! ### generated tables: shapes -/

/-- one enum `switch` of conv.cpp: `pairs` lists, for every `case` label, the enumerator the function
returns when entered at that label (assignments executed up to the next `break`; `dflt` when none). -/
structure EnumMap where
  fn : Ident
  src : Ident
  dst : Ident
  srcAll : List Ident
  dstAll : List Ident
  srcVals : List Nat
  dstVals : List Nat
  pairs : List (Ident × Ident)
  dflt : Ident
  hasDefaultLabel : Bool

/-- `to_c` / `from_c` overload that is a `reinterpret_cast` between an opaque C type and a C++ type -/
structure PtrConv where
  fn : Ident
  cType : Ident
  cppType : Ident

/-- by-value converter: the components of the argument in the order they are passed on -/
structure ValConv where
  fn : Ident
  src : Ident
  dst : Ident
  comps : List Ident

structure CStruct where
  name : Ident
  fields : List Ident

structure Param where
  name : Ident
  ty : Ident

/-- one argument of a forwarded call: the C parameters (or `param.field`, `param[].field`) it is built
from in order of appearance; `aux` = lengths / loop bounds; `shape` = nesting of vec/mat constructors -/
structure Arg where
  srcs : List Ident
  aux : List Ident
  shape : List Nat
  form : Ident

structure Call where
  kind : Ident            -- method | static | function | ctor | operator | fieldset | field | aggregate | std
  callee : Ident          -- qualified name of the resolved C++ declaration
  recv : List Ident
  args : List Arg
  cppParams : List Ident  -- parameter names of that declaration ("" = unnamed in the header)
  cppDefaults : List Bool
  defaultsUsed : Nat
  via : Ident             -- local helper the call was inlined from ("" = none)

structure Placement where
  mem : Ident
  nmem : Nat
  direct : Bool
  ty : Ident
  via : Ident

structure Callback where
  fn : Ident
  via : Ident            -- bind | direct
  args : List Ident      -- "placeholder:k" | "param:<name>" | "expr"
  arity : Nat
  lastVoidPtr : Bool

structure TypedArg where
  arg : Ident
  ty : Ident

structure CopyOut where
  mem : Ident
  src : Ident
  elem : Ident

structure Wrapper where
  name : Ident
  file : Ident
  ret : Ident
  params : List Param
  declared : Bool
  hdrRet : Ident
  hdrParams : List Param
  calls : List Call
  placements : List Placement
  callbacks : List Callback
  sizeofs : List Ident
  allocs : List Ident
  deletes : List TypedArg
  destructs : List TypedArg
  copyouts : List CopyOut
  retKind : Ident        -- new | helper | copy_data | struct | value | void
  retMem : List Ident
  retFields : List Ident
  retStruct : Ident
  used : List Ident

/-- reviewed exceptions (MV/Model/CBindExceptions.lean) -/
structure Exceptions where
  /-- (C name, C++ name) pairs accepted as naming the same parameter / field -/
  argNames : List (Ident × Ident)
  /-- (C enumerator, C++ enumerator) pairs accepted although the names differ -/
  enumNames : List (Ident × Ident)
  /-- (wrapper, header parameter name, definition parameter name) -/
  headerNames : List (Ident × Ident × Ident)
  /-- (wrapper, last component of the C++ callee it stands for) where the names do not correspond -/
  calleeAliases : List (Ident × Ident)

/-! ### normalisation -/

def lower (c : Nat) : Nat := if 65 ≤ c ∧ c ≤ 90 then c + 32 else c

/-- case- and underscore-insensitive form: `radius_low`, `radiusLow`, `RADIUS_LOW` ↦ `radiuslow` -/
def norm (s : Ident) : Ident := (s.filter (· != 95)).map lower

def isDigit (c : Nat) : Bool := 48 ≤ c && c ≤ 57

def dropTrailing (p : Nat → Bool) (s : Ident) : Ident := (s.reverse.dropWhile p).reverse
def takeTrailing (p : Nat → Bool) (s : Ident) : Ident := (s.reverse.takeWhile p).reverse

/-- drop one plural `s` -/
def singular (s : Ident) : Ident := if s.getLast? = some 115 then s.dropLast else s

def isInfix (a : Ident) : Ident → Bool
  | [] => a.isEmpty
  | b :: bs => a.isPrefixOf (b :: bs) || isInfix a bs

/-- the part of a source after the last `.` (`options.run_indices` ↦ `run_indices`, `ps[].x` ↦ `x`) -/
def lastComponent (s : Ident) : Ident := takeTrailing (· != 46) s

/-- the C parameter a source hangs off: up to the first `.` or `[` -/
def baseOf (s : Ident) : Ident := s.takeWhile (fun c => c != 46 && c != 91)

def isComponent (s : Ident) : Bool := s.any (fun c => c == 46 || c == 91)

def commonPrefix : Ident → Ident → Ident
  | a :: as, b :: bs => if a = b then a :: commonPrefix as bs else []
  | _, _ => []

def commonPrefixAll : List Ident → Ident
  | [] => []
  | [x] => x
  | x :: xs => commonPrefix x (commonPrefixAll xs)

/-- do a C-side name and a C++-side name denote the same thing?  equal after normalisation and
singularisation, or one a prefix of the other (`deg`/`degrees`, `scale`/`scaleTop`, `x`/`xDegrees`), or the
C name a suffix of the C++ name (`offset`/`originOffset`). -/
def nameMatch (c cpp : Ident) : Bool :=
  let a := singular (norm c)
  let b := singular (norm cpp)
  a == b || a.isPrefixOf b || b.isPrefixOf a || a.isSuffixOf b

def xyzw : List Nat := [120, 121, 122, 119]

def idx? (ps : List Param) (n : Ident) : Option Nat := ps.findIdx? (fun p => p.name == n)

/-! ### enum tables -/

def lookup (t : List (Ident × Ident)) (k : Ident) : Option Ident := (t.find? (fun p => p.1 == k)).map (·.2)

/-- every enumerator of the source enum has exactly one `case`, in declaration order, and there is no `default:` -/
def EnumMap.total (m : EnumMap) : Bool := m.pairs.map (·.1) == m.srcAll && !m.hasDefaultLabel
/-- distinct enumerators are mapped to distinct enumerators, and every target enumerator is produced -/
def EnumMap.bijective (m : EnumMap) : Bool :=
  (m.pairs.map (·.2)).eraseDups.length == m.pairs.length && m.dstAll.all (fun d => (m.pairs.map (·.2)).contains d)
    && (m.pairs.map (·.2)).all (fun d => m.dstAll.contains d)
/-- the numeric values of paired enumerators agree -/
def EnumMap.valuesAgree (m : EnumMap) : Bool :=
  m.srcAll.length == m.srcVals.length && m.dstAll.length == m.dstVals.length &&
  m.pairs.all (fun p =>
    match m.srcAll.idxOf? p.1, m.dstAll.idxOf? p.2 with
    | some i, some j => m.srcVals[i]? == m.dstVals[j]? && (m.srcVals[i]?).isSome
    | _, _ => false)

/-- `MANIFOLD_<Name>` or `MANIFOLD_<EnumType>_<Name>` ↔ `Name` -/
def enumNameOK (exc : Exceptions) (cEnumType cName cppName : Ident) : Bool :=
  let c := norm cName
  let n := norm cppName
  let m := norm [77, 65, 78, 73, 70, 79, 76, 68]            -- "MANIFOLD"
  let t := (norm cEnumType).drop m.length                   -- ManifoldJoinType ↦ jointype
  c == m ++ n || c == m ++ t ++ n || exc.enumNames.contains (cName, cppName)

def EnumMap.namesOK (exc : Exceptions) (m : EnumMap) : Bool :=
  if m.fn == [116, 111, 95, 99] then   -- to_c : C++ → C
    m.pairs.all (fun p => enumNameOK exc m.dst p.2 p.1)
  else m.pairs.all (fun p => enumNameOK exc m.src p.1 p.2)

/-- `g ∘ f = id` on every enumerator of `f`'s source enum -/
def roundTrip (f g : EnumMap) : Bool :=
  f.srcAll.all (fun x => match lookup f.pairs x with
    | some y => lookup g.pairs y == some x
    | none => false)

/-- every pair of tables between the same two enums, in opposite directions, is mutually inverse -/
def enumRoundTrips (ms : List EnumMap) : Bool :=
  ms.all (fun f => ms.all (fun g => if f.src == g.dst && f.dst == g.src then roundTrip f g else true))

/-! ### opaque pointer conversions -/

def ptrConvsInverse (cs : List PtrConv) : Bool :=
  let toC := cs.filter (fun c => c.fn == [116, 111, 95, 99])
  let fromC := cs.filter (fun c => c.fn != [116, 111, 95, 99])
  toC.all (fun a => fromC.any (fun b => a.cType == b.cType && a.cppType == b.cppType)) &&
  fromC.all (fun a => toC.any (fun b => a.cType == b.cType && a.cppType == b.cppType)) &&
  (toC.map (·.cType)).eraseDups.length == toC.length && (fromC.map (·.cType)).eraseDups.length == fromC.length

/-- the C++ type an opaque C pointer type stands for -/
def cppOf (cs : List PtrConv) (cPtrType : Ident) : Option Ident :=
  let c := dropTrailing (fun ch => ch == 42 || ch == 32) cPtrType
  (cs.find? (fun p => p.cType == c)).map (·.cppType)

def valConvOK (structs : List CStruct) (v : ValConv) : Bool :=
  v.comps.length ≤ 4 && v.comps == (xyzw.take v.comps.length).map (fun c => [c]) &&
  structs.any (fun s => (s.name == v.src || s.name == v.dst) && s.fields == v.comps)

/-! ### argument order -/

/-- position key of a source: (index of its base parameter, is it a component of that parameter) -/
def srcKey (ps : List Param) (s : Ident) : Option (Nat × Bool) := (idx? ps (baseOf s)).map (fun i => (i, isComponent s))

/-- strictly increasing parameter positions; sources hanging off the same parameter (`ps[].x, ps[].y`,
`options.a` …) may repeat it -/
def increasing : List (Nat × Bool) → Bool
  | [] => true
  | [_] => true
  | a :: b :: rest => (a.1 < b.1 || (a.1 == b.1 && a.2 && b.2)) && increasing (b :: rest)

def Call.sources (c : Call) : List Ident := c.recv ++ c.args.flatMap (·.srcs)

/-- every source is a C parameter and the sources occur in the order of the C parameter list -/
def Call.orderOK (ps : List Param) (c : Call) : Bool :=
  let ks := c.sources.map (srcKey ps)
  ks.all Option.isSome && increasing (ks.filterMap id)

def hasParams (c : Call) : Bool :=
  !(c.kind == [115, 116, 100] || c.kind == [102, 105, 101, 108, 100])   -- not "std", not "field"

/-- one supplied argument per declared parameter, trailing ones may be left to their declared defaults -/
def Call.arityOK (c : Call) : Bool :=
  if hasParams c then
    c.args.length + c.defaultsUsed == c.cppParams.length && c.cppDefaults.length == c.cppParams.length &&
    (c.cppDefaults.drop c.args.length).all id
  else true

/-- components of a packed argument: `p ++ [x|y|z|w] ++ s` with a common prefix `p` and digit suffix `s` -/
def vecCompsOK (srcs : List Ident) : Bool :=
  let stripped := srcs.map (dropTrailing isDigit)
  let sufs := srcs.map (takeTrailing isDigit)
  let comps := stripped.map (fun s => s.getLast?)
  let pres := stripped.map (fun s => s.dropLast)
  srcs.length ≤ 4 && comps == (xyzw.take srcs.length).map some &&
  pres.all (fun p => some p == pres.head?) && sufs.all (fun s => some s == sufs.head?)

def digitsOf (n : Nat) : Ident := (Nat.toDigits 10 n).map Char.toNat

/-- column-major matrix `x1 y1 (z1) x2 y2 (z2) …` -/
def matCompsOK (srcs : List Ident) (shape : List Nat) : Bool :=
  match shape with
  | [] => true
  | r :: _ =>
    shape.all (· == r) && r ≤ 4 &&
    srcs == (List.range shape.length).flatMap (fun i => (xyzw.take r).map (fun ch => ch :: [49 + i]))

def Arg.compsOK (a : Arg) : Bool :=
  match a.shape with
  | [] => true
  | [k] => k == a.srcs.length && vecCompsOK a.srcs
  | sh => sh.length ≤ 9 && sh.foldl (· + ·) 0 == a.srcs.length && matCompsOK a.srcs sh

/-- the C-side name an argument goes by: the single source (last component), or the common prefix of a pack -/
def Arg.cName (a : Arg) : Ident :=
  match a.srcs.map lastComponent with
  | [] => []
  | [s] => s
  | ss => if a.shape.length ≤ 1 then dropTrailing (· == 95) (commonPrefixAll (ss.map (fun s => (dropTrailing isDigit s).dropLast))) else []

def startsWith (p s : Ident) : Bool := p.isPrefixOf s

/-- opaque object arguments (`*from_c(p)`) and callables are type-checked by the compiler and order-checked by
`orderOK` (callables additionally by `Callback.ok`); the name rule is for everything else -/
def Arg.isObject (a : Arg) : Bool :=
  startsWith [100, 101, 114, 101, 102] a.form || a.form == [99, 97, 108, 108, 98, 97, 99, 107]   -- "deref…" | "callback"

def argNameOK (exc : Exceptions) (a : Arg) (cpp : Ident) : Bool :=
  cpp == [] || a.isObject || a.srcs == [] ||
  (let c := a.cName
   (c == [] && a.srcs.length > 1) || nameMatch c cpp || exc.argNames.contains (c, cpp))

def zipAll (exc : Exceptions) : List Arg → List Ident → Bool
  | [], _ => true
  | _ :: _, [] => false
  | a :: as, p :: ps => argNameOK exc a p && zipAll exc as ps

def Call.namesOK (exc : Exceptions) (c : Call) : Bool :=
  if hasParams c then zipAll exc c.args c.cppParams else true

def Call.ok (exc : Exceptions) (ps : List Param) (c : Call) : Bool :=
  c.orderOK ps && c.arityOK && c.args.all Arg.compsOK && c.namesOK exc

def isVoidPtr (t : Ident) : Bool := t == [118, 111, 105, 100, 32, 42]   -- "void *"
def isMemParam (p : Param) : Bool := isVoidPtr p.ty && startsWith [109, 101, 109] p.name   -- void* mem…

/-- every C parameter reaches the C++ side (nothing is dropped) -/
def Wrapper.allUsed (w : Wrapper) : Bool := w.params.all (fun p => w.used.contains p.name)

def Wrapper.argsOK (exc : Exceptions) (w : Wrapper) : Bool :=
  w.calls.all (Call.ok exc w.params) && w.allUsed

/-! ### header -/

def Wrapper.headerOK (exc : Exceptions) (w : Wrapper) : Bool :=
  w.declared && w.hdrRet == w.ret && w.hdrParams.map (·.ty) == w.params.map (·.ty) &&
  (w.hdrParams.zip w.params).all (fun (h, d) =>
    h.name == d.name || exc.headerNames.contains (w.name, h.name, d.name) ||
    -- a differently spelled name is harmless when no other parameter has this type: the type pins the position
    (w.params.filter (fun q => q.ty == d.ty)).length == 1)

/-! ### placement new -/

def memParams (w : Wrapper) : List Param := w.params.takeWhile isMemParam

/-- constructor-like wrapper: `n` leading `void* mem…` parameters, exactly `n` placement-news, the k-th directly
into the k-th mem parameter, of the C++ type the return type stands for, and the wrapper returns those very
pointers (`to_c(new (mem) T(…))`); or a `copy_data(mem, …)` that returns `mem`; nothing else may mention `mem`. -/
def Wrapper.placementOK (cs : List PtrConv) (w : Wrapper) : Bool :=
  let ms := (memParams w).map (·.name)
  if w.copyouts.length > 0 then
    ms.length == 1 && w.placements.length == 0 && w.copyouts.length == 1 &&
    w.copyouts.all (fun c => some c.mem == ms.head?) && w.retKind == [99, 111, 112, 121, 95, 100, 97, 116, 97] && w.retMem == ms
  else
    w.placements.map (·.mem) == ms && w.placements.all (fun p => p.direct && p.nmem == 1) &&
    (ms.length == 0 || w.retMem == ms) &&
    (match ms with
     | [] => true
     | [_] => w.placements.all (fun p => cppOf cs w.ret == some p.ty)
     | _ => w.retKind == [115, 116, 114, 117, 99, 116]) &&
    -- no other parameter is a raw `void*` used as storage
    w.params.all (fun p => isMemParam p → ms.contains p.name)

/-! ### sizes and the alloc / destruct / delete families -/

def manifoldPfx : Ident := [109, 97, 110, 105, 102, 111, 108, 100, 95]   -- "manifold_"
def sizeSfx : Ident := [95, 115, 105, 122, 101]                           -- "_size"
def allocPfx : Ident := manifoldPfx ++ [97, 108, 108, 111, 99, 95]
def destructPfx : Ident := manifoldPfx ++ [100, 101, 115, 116, 114, 117, 99, 116, 95]
def deletePfx : Ident := manifoldPfx ++ [100, 101, 108, 101, 116, 101, 95]

/-- object name of an opaque C type: `ManifoldCrossSectionVec` ↦ `crosssectionvec` -/
def objOfC (cType : Ident) : Ident := (norm cType).drop 8

def isSizeFn (w : Wrapper) : Bool :=
  w.sizeofs.length == 1 && w.params.length == 0 && sizeSfx.isSuffixOf w.name && startsWith manifoldPfx w.name
def sizeObj (w : Wrapper) : Ident := norm ((w.name.drop manifoldPfx.length).take (w.name.length - manifoldPfx.length - sizeSfx.length))

/-- for the opaque type `c` standing for the C++ type `t`: `manifold_<c>_size` returns `sizeof(t)`,
`manifold_alloc_<c>` allocates raw storage for a `t`, `manifold_destruct_<c>` runs `~t` on its argument,
`manifold_delete_<c>` deletes its argument as a `t*`.  (Cheap tests first: the kernel evaluates `&&` lazily.) -/
def familyOK (ws : List Wrapper) (c : PtrConv) : Bool :=
  let o := objOfC c.cType
  let cPtr := c.cType ++ [32, 42]
  ws.any (fun w => w.sizeofs == [c.cppType] && isSizeFn w && sizeObj w == o) &&
  ws.any (fun w => w.allocs == [c.cppType] && w.params.length == 0 && w.ret == cPtr &&
                   startsWith allocPfx w.name && norm (w.name.drop allocPfx.length) == o) &&
  ws.any (fun w => w.destructs.map (·.ty) == [c.cppType] && w.deletes.length == 0 &&
                   w.params.map (·.ty) == [cPtr] && w.destructs.map (·.arg) == w.params.map (·.name) &&
                   startsWith destructPfx w.name && norm (w.name.drop destructPfx.length) == o) &&
  ws.any (fun w => w.deletes.map (·.ty) == [c.cppType] && w.destructs.length == 0 &&
                   w.params.map (·.ty) == [cPtr] && w.deletes.map (·.arg) == w.params.map (·.name) &&
                   startsWith deletePfx w.name && norm (w.name.drop deletePfx.length) == o)

/-- the `*_size` functions as (object name, sizeof type) -/
def sizeTable (ws : List Wrapper) : List (Ident × Ident) :=
  (ws.filter (fun w => w.sizeofs.length > 0)).map (fun w => (sizeObj w, w.sizeofs.headD []))

/-- every `*_size` function returns the sizeof of exactly the type that is placement-new'd for that object:
`tbl` is `sizeTable wrappers`; the object's entry exists and every entry for that object carries `p.ty` -/
def Wrapper.sizeOK (cs : List PtrConv) (tbl : List (Ident × Ident)) (w : Wrapper) : Bool :=
  w.placements.all (fun p =>
    match cs.find? (fun c => c.cppType == p.ty) with
    | some c =>
      let o := objOfC c.cType
      tbl.any (fun e => e.1 == o) && tbl.all (fun e => e.1 != o || e.2 == p.ty)
    | none => false)

/-- only the lifecycle functions allocate, destruct or delete -/
def Wrapper.noStrayLifecycle (w : Wrapper) : Bool :=
  (w.allocs.length == 0 || startsWith allocPfx w.name) &&
  (w.destructs.length == 0 || startsWith destructPfx w.name) &&
  (w.deletes.length == 0 || startsWith deletePfx w.name) &&
  (w.sizeofs.length == 0 || isSizeFn w)

/-! ### callbacks -/

def placeholder (k : Nat) : Ident := [112, 108, 97, 99, 101, 104, 111, 108, 100, 101, 114, 58] ++ digitsOf k
def paramRef (n : Ident) : Ident := [112, 97, 114, 97, 109, 58] ++ n

def isFnPtr (t : Ident) : Bool := isInfix [40, 42, 41] t   -- "(*)"

/-- the callback is invoked with the user's `void*` as its last argument, unchanged: either
`std::bind(fun, _1, …, _k, ctx)` with `k + 1` = arity of `fun`, or a direct call `fun(…, ctx)`;
`ctx` is a `void*` parameter of the wrapper -/
def Callback.ok (ps : List Param) (cb : Callback) : Bool :=
  cb.lastVoidPtr && cb.args.length == cb.arity &&
  (match cb.args.getLast? with
   | some l => ps.any (fun p => isVoidPtr p.ty && !isMemParam p && l == paramRef p.name)
   | none => false) &&
  (if cb.via == [98, 105, 110, 100] then   -- bind
     cb.args.dropLast == (List.range (cb.arity - 1)).map (fun i => placeholder (i + 1))
   else true)

def Wrapper.callbacksOK (w : Wrapper) : Bool :=
  w.callbacks.all (Callback.ok w.params) &&
  w.params.all (fun p => isFnPtr p.ty → w.callbacks.any (fun cb => cb.fn == p.name))

/-! ### returned structs -/

def Wrapper.retFieldsOK (structs : List CStruct) (w : Wrapper) : Bool :=
  if w.retKind == [115, 116, 114, 117, 99, 116] then
    match structs.find? (fun s => s.name == w.retStruct) with
    | none => false
    | some s =>
      s.fields.length == w.retFields.length &&
      ((s.fields.zip w.retFields).zipIdx).all (fun ((f, r), i) =>
        if r == [] then (match w.retMem[i]? with | some m => norm m == [109, 101, 109] ++ norm f | none => false)
        else norm f == norm r)
  else true

/-! ### which C++ call a wrapper names -/

def isApi (c : Call) : Bool := !(c.kind == [115, 116, 100] || c.kind == [97, 103, 103, 114, 101, 103, 97, 116, 101])

/-- last `::` component of a qualified name -/
def lastQual (s : Ident) : Ident := takeTrailing (· != 58) s

def Wrapper.calleeOK (exc : Exceptions) (w : Wrapper) : Bool :=
  let api := w.calls.filter isApi
  api.length == 0 ||
  (let t := norm (w.name.drop manifoldPfx.length)
   api.any (fun c =>
     let n := norm (lastQual c.callee)
     let n := if startsWith [103, 101, 116] n then n.drop 3 else n      -- GetX ↦ x
     n.length > 2 && n.all (fun ch => ch != 40) && isInfix n t) ||
   api.any (fun c => exc.calleeAliases.contains (w.name, lastQual c.callee)))

end MV.CBind
