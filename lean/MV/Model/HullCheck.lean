import MV.Model.Mesh
/-
Exact convex-hull certificate checker for property C16 (`Manifold::Hull`, /repo/src/quickhull.cpp,
/repo/src/manifold.cpp:1107-1152).  Core Lean only; linked into `mvdriver` (engine `hull`).

The checker does not model QuickHull.  It takes the INPUT points and the OUTPUT mesh of the real
`Hull()` (integer coordinates: the harness feeds lattice / dyadic clouds scaled to integers, and the
hull copies vertex coordinates verbatim, so the data are exact) and decides

  * the output is a closed oriented 2-manifold (`MV.Mesh.checkMesh`, verified in C01),
  * every output vertex is an input point,
  * every input point lies on the inner side of (or on) the plane of every output triangle.

`MV/Proof/HullCheck.lean` proves that acceptance implies exactly these statements for ALL inputs, and
`MV/Props/C16.lean` lifts them to `ℝ³`: the intersection of the face half-spaces is a convex set that
contains the convex hull of the input, and every face plane touches that hull in three input points.

`affineRank` decides (exactly) whether the input spans a volume: 0 = no points, 1 = one distinct
point, 2 = collinear, 3 = coplanar, 4 = spans a volume.
-/
namespace MV.Hull
open MV.Mesh

abbrev P3 := Int × Int × Int

def sub (a b : P3) : P3 := (a.1 - b.1, a.2.1 - b.2.1, a.2.2 - b.2.2)
def cross (u v : P3) : P3 :=
  (u.2.1 * v.2.2 - u.2.2 * v.2.1, u.2.2 * v.1 - u.1 * v.2.2, u.1 * v.2.1 - u.2.1 * v.1)
def dot (u v : P3) : Int := u.1 * v.1 + u.2.1 * v.2.1 + u.2.2 * v.2.2

/-- normal of the triangle `a b c` by the right-hand rule (outward for the meshes of /repo) -/
def normal (a b c : P3) : P3 := cross (sub b a) (sub c a)

/-- six times the signed volume of the tetrahedron `a b c p`: positive iff `p` is strictly on the
outer side of the plane of `a b c` -/
def orient (a b c p : P3) : Int := dot (normal a b c) (sub p a)

def isZero (u : P3) : Bool := u.1 == 0 && u.2.1 == 0 && u.2.2 == 0

/-! ## affine rank of a point cloud -/

def affineRank : List P3 → Nat
  | [] => 0
  | p0 :: rest =>
    match rest.find? (fun q => !isZero (sub q p0)) with
    | none => 1
    | some p1 =>
      match rest.find? (fun q => !isZero (cross (sub p1 p0) (sub q p0))) with
      | none => 2
      | some p2 =>
        match rest.find? (fun q => orient p0 p1 p2 q != 0) with
        | none => 3
        | some _ => 4

/-! ## the certificate checker -/

inductive HullErr where
  | mesh (e : MeshErr)
  | vertexNotInput (v : Nat)
  | pointOutside (tri : Nat) (pt : Nat)
deriving Repr, DecidableEq, Inhabited

/-- position of vertex `i` (out-of-range reads give the origin; `checkMesh` excludes them) -/
def vpos (vs : Array P3) (i : Nat) : P3 := vs.getD i (0, 0, 0)

def triNormal (vs : Array P3) (t : Tri) : P3 := normal (vpos vs t.1) (vpos vs t.2.1) (vpos vs t.2.2)
def triOrient (vs : Array P3) (t : Tri) (p : P3) : Int :=
  orient (vpos vs t.1) (vpos vs t.2.1) (vpos vs t.2.2) p

/-- first input point strictly outside the plane of `t` -/
def firstOutside (vs : Array P3) (pts : List P3) (t : Tri) : Option Nat :=
  pts.findIdx? (fun p => decide (0 < triOrient vs t p))

/-- first `(triangle, point)` with the point strictly outside the triangle's plane -/
def findOutside (vs : Array P3) (pts : List P3) : List Tri → Nat → Option (Nat × Nat)
  | [], _ => none
  | t :: ts, i =>
    match firstOutside vs pts t with
    | some j => some (i, j)
    | none => findOutside vs pts ts (i + 1)

def checkHull (pts : List P3) (vs : Array P3) (ts : List Tri) : Except HullErr Unit :=
  match checkMesh vs.size ts with
  | .error e => .error (.mesh e)
  | .ok () =>
  match (List.range vs.size).find? (fun i => !(pts.contains (vpos vs i))) with
  | some i => .error (.vertexNotInput i)
  | none =>
  match findOutside vs pts ts 0 with
  | some (i, j) => .error (.pointOutside i j)
  | none => .ok ()

/-- number of zero-area output triangles (collinear corners).  They are legal in a Manifold and carry
no half-space (`triOrient` is identically 0 for them); reported, not rejected. -/
def flatCount (vs : Array P3) (ts : List Tri) : Nat := (ts.filter fun t => isZero (triNormal vs t)).length

/-- for clouds that span no volume: is the (non-empty) output at least flat and made of input
points?  `true` iff every vertex is an input point and every input point is ON every face plane. -/
def flatOnInput (pts : List P3) (vs : Array P3) (ts : List Tri) : Bool :=
  (List.range vs.size).all (fun i => pts.contains (vpos vs i)) &&
  ts.all (fun t => pts.all (fun p => triOrient vs t p == 0))

end MV.Hull
