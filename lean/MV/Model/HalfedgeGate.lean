import MV.Model.Halfedge
/-
The import gate of `Manifold::Impl::Impl(const MeshGLP&)` (/repo/src/impl.h:532-536):

    CreateHalfedges(triProp, triVert);
    if (!IsManifold()) { MakeEmpty(Error::NotManifold); return; }

`CreateHalfedges` is `MV.Halfedge.createHalfedges` (MV/Model/Halfedge.lean: sorted-key path, serial
`#else` loop; every `x[k]` a checked `rd`/`wr`, every `while (1)` with fuel).  This file adds the
checked transliteration of `CheckHalfedges::operator()` and `Impl::IsManifold()`
(/repo/src/properties.cpp:76-111) on the struct-of-arrays `halfedge_`, so that the two together are
total on ARBITRARY triangle soups and a fault (`HErr.oob`, `HErr.fuel`) is an observable value.

`IsManifold()` is `all_of(CheckHalfedges)` and nothing else: the "no directed edge twice" test is
`Is2Manifold()` (properties.cpp:117-132), which the constructor does NOT call (it is only used inside
DEBUG_ASSERTs).  The gate therefore lets even-manifolds through (an undirected edge with 4, 6, ...
triangles whose directed copies pair up) and leaves them to `CleanupTopology()` (impl.h:544:
SplitPinchedVerts + DedupeEdges).

Core Lean only; executable; linked into `mvdriver` (engine `mesh`, request `soup`).
-/
namespace MV.Halfedge
open MV.Mesh

/-- `NextHalfedge(int current)` (shared.h:33-36) on a C++ `int`; `%` truncates -/
def nextI (e : Int) : Int := if Int.tmod e 3 = 2 then e - 2 else e + 1

/-- `CheckHalfedges::operator()(edge)` (properties.cpp:79-96).  `Start(i)` is `start_[i]`,
`End(i)` is `start_[NextHalfedge(i)]`, `Pair(i)` is `paired_[i]`; every one a checked read.  The
three reads through `pair` (lines 91, 93, 94) are the ones no guard of the C++ protects. -/
def checkHalfedge (o : Out) (e : Nat) : Except HErr Bool := do
  let start ← rd o.start (e : Int)                      -- :80
  let end_ ← rd o.start (nextI e)                       -- :81
  let pair ← rd o.paired (e : Int)                      -- :82
  if start == -1 && end_ == -1 && pair == -1 then pure true else   -- :83
  let s1 ← rd o.start (nextI e)                         -- :84
  if s1 == -1 then pure false else
  let s2 ← rd o.start (nextI (nextI e))                 -- :85
  if s2 == -1 then pure false else
  if pair == -1 then pure false else                    -- :88
  let pp ← rd o.paired pair                             -- :91  Pair(pair)
  let ep ← rd o.start (nextI pair)                      -- :93  End(pair)
  let sp ← rd o.start pair                              -- :94  Start(pair)
  pure (pp == (e : Int) && start != end_ && start == ep && end_ == sp)

/-- `all_of(countAt(0), countAt(size), CheckHalfedges)`: EVERY halfedge is evaluated (no
short-circuit: the parallel `all_of` may evaluate any of them), a fault anywhere is a fault. -/
def allCheck (o : Out) : Nat → Nat → Bool → Except HErr Bool
  | 0, _, acc => pure acc
  | n + 1, e, acc => do
    let g ← checkHalfedge o e
    allCheck o n (e + 1) (acc && g)

/-- `Impl::IsManifold()` (properties.cpp:106-111) -/
def isManifold (o : Out) : Except HErr Bool :=
  if o.start.size = 0 then pure true
  else if o.start.size % 3 ≠ 0 then pure false
  else allCheck o o.start.size 0 true

/-- impl.h:532-536: `some true` = the constructor goes on (towards NoError), `some false` =
`MakeEmpty(NotManifold)` -/
def importGate (triVert : List Tri) : Except HErr Bool := do
  let o ← createHalfedges triVert
  isManifold o

end MV.Halfedge
