/-
Combinatorial core of the 2-D Boolean (/repo/src/boolean2_sweep.cpp, /repo/src/boolean2.cpp).
Core Lean only.  Coordinates are integers (any linear order would do): rounding is NOT modelled;
every GEOMETRIC decision of the sweep (status order, crossing discovery, block rule) is outside
this file.  What is modelled is everything the sweep does with *multiplicities*:

Transliteration table
  enum class WindRule {Add,Intersect,EvenOdd}   boolean2.h:168            `WindRule`
  IsInside(rule, w)                              boolean2_sweep.cpp:84-94  `isInside`   (regenerated copy: MV/Gen/WindRule.lean)
  Boolean2D: bSign / rule from OpType            boolean2.cpp:240-246      `bSign`, `ruleOf`, `opInside`
  LexLess / PairLexLess                          boolean2_sweep.cpp:41-46, 99-106   `lexLess`, `pairLexLess`
  PolySet2 = std::map<pair<vec2,vec2>,int64>     boolean2_sweep.cpp:107    `PolySet` (association list in key order = iteration order)
  PolySetAdd                                     boolean2_sweep.cpp:111-122 `polySetAdd` (`bump` = find / emplace / += / erase-on-zero)
  AppendInput                                    boolean2.cpp:111-122      `loopEdges`, `appendInput`
  ApplyFillRule(a,b,bSign,..) + SweepWinding seeding loop   boolean2.cpp:137-138, boolean2_sweep.cpp:438-442   `seed`, `seedEdges`
  MergeVerticals1D                               boolean2_sweep.cpp:129-160 `deltaBump`, `deltaOf`, `scan`, `mergeLine`, `mergeVerticals1D`
  EmitBoundary (winding mode) + the w/below/above loop of ProcessEvent   boolean2_sweep.cpp:259-273, 344-357
                                                 `emitRaw`, `polyNorm`, `emitSign`, `emitFrom`, `emitColumn`
  CcwTurnGroup / CcwTurnLess                     boolean2.cpp:57-79        `ccwTurnGroup`, `ccwTurnLess`
  OutEdgesToPolygons                             boolean2.cpp:158-216      `walk`, `extractFrom`, `extractAll` (choice = arbitrary oracle), `pickCcw` (the code's oracle)
  PushSimpleLoops / PushLoopIfNondegenerate      boolean2.cpp:81-109       `firstRepeat`, `findSplit`, `pushSimpleLoops`
  pixel semantics of lattice-rectangle programs (specification, not code)   `Expr`, `pixelIn`, `pixelEval`
-/
namespace MV.Sweep2

/-! ## winding rules -/

/-- `enum class WindRule { Add, Intersect, EvenOdd }` -/
inductive WindRule
  | add | intersect | evenOdd
deriving DecidableEq, Repr, Inhabited

def allRules : List WindRule := [.add, .intersect, .evenOdd]

/-- C++ `%` on `int64_t` truncates toward zero. -/
def cmod (a b : Int) : Int := Int.tmod a b

/-- `bool IsInside(WindRule rule, int64_t w)`: `w > 0`, `w > 1`, `w % 2 != 0`. -/
def isInside : WindRule → Int → Bool
  | .add, w => decide (w > 0)
  | .intersect, w => decide (w > 1)
  | .evenOdd, w => cmod w 2 != 0

/-- `enum class OpType { Add, Subtract, Intersect }` -/
inductive OpType
  | add | subtract | intersect
deriving DecidableEq, Repr, Inhabited

def allOps : List OpType := [.add, .subtract, .intersect]

/-- `const int bSign = op == OpType::Subtract ? -1 : 1;` -/
def bSign (op : OpType) : Int := if op = .subtract then -1 else 1
/-- `const WindRule rule = op == OpType::Intersect ? WindRule::Intersect : WindRule::Add;` -/
def ruleOf (op : OpType) : WindRule := if op = .intersect then .intersect else .add

/-- how `Boolean2D` classifies a point whose windings in the operands are `a` and `b`:
    every edge of `b` is seeded with multiplicity `bSign`, so the winding of the seeded set is
    `a + bSign * b`, read by `ruleOf op`. -/
def opInside (op : OpType) (a b : Int) : Bool := isInside (ruleOf op) (a + bSign op * b)

/-- `BatchBoolean` for Add/Subtract: all clips are concatenated into ONE second operand. -/
def batchInside (op : OpType) (a : Int) (bs : List Int) : Bool :=
  isInside (ruleOf op) (a + bSign op * bs.sum)

def ind (b : Bool) : Int := if b then 1 else 0

/-! ## PolySet2 -/

abbrev Pt := Int × Int
abbrev Key := Pt × Pt
/-- directed edge `a → b` with multiplicity -/
abbrev DEdge := Pt × Pt × Int

/-- `LexLess` -/
def lexLess (a b : Pt) : Bool := decide (a.1 < b.1) || (a.1 == b.1 && decide (a.2 < b.2))

/-- `PairLexLess` -/
def pairLexLess (a b : Key) : Bool :=
  if lexLess a.1 b.1 then true
  else if lexLess b.1 a.1 then false
  else lexLess a.2 b.2

/-- the `std::map` as the list of its entries in iteration (= key) order -/
abbrev PolySet := List (Key × Int)

/-- `find`; not found: `emplace`; found: `+= m`, `erase` when the sum is zero.
    (two keys are the same map slot when neither is `PairLexLess` the other) -/
def bump : PolySet → Key → Int → PolySet
  | [], k, m => [(k, m)]
  | (k', v) :: rest, k, m =>
    if pairLexLess k k' then (k, m) :: (k', v) :: rest
    else if pairLexLess k' k then (k', v) :: bump rest k m
    else if v + m = 0 then rest else (k', v + m) :: rest

/-- `void PolySetAdd(PolySet2& ps, vec2 a, vec2 b, int64_t m)` -/
def polySetAdd (ps : PolySet) (a b : Pt) (m : Int) : PolySet :=
  if a = b ∨ m = 0 then ps
  else if lexLess b a then bump ps (b, a) (-m)
  else bump ps (a, b) m

/-- stored multiplicity of a key (0 when absent) -/
def mult : PolySet → Key → Int
  | [], _ => 0
  | (k', v) :: rest, k => (if k' = k then v else 0) + mult rest k

/-- the seeding loop of `SweepWinding` -/
def ofEdges (es : List DEdge) : PolySet :=
  es.foldl (fun ps e => polySetAdd ps e.1 e.2.1 e.2.2) []

/-- edges of one loop in `AppendInput`: `{base+i, base+((i+1)%n), mult}`; loops with fewer than
    three vertices are skipped -/
def loopEdges (loop : List Pt) (m : Int) : List DEdge :=
  if loop.length < 3 then []
  else (List.range loop.length).map fun i =>
    (loop.getD i (0, 0), loop.getD ((i + 1) % loop.length) (0, 0), m)

def appendInput (polys : List (List Pt)) (m : Int) : List DEdge := polys.flatMap (loopEdges · m)

/-- the seeded arrangement of `ApplyFillRule(a, b, bSign, …)` (before the eps-preprocessing,
    which is not modelled) -/
def seed (a b : List (List Pt)) (sgn : Int) : PolySet :=
  ofEdges (appendInput a 1 ++ appendInput b sgn)

/-- the same on plain edge lists -/
def seedEdges (a b : List (Pt × Pt)) (sgn : Int) : PolySet :=
  ofEdges (a.map (fun e => (e.1, e.2, 1)) ++ b.map (fun e => (e.1, e.2, sgn)))

/-! ## MergeVerticals1D -/

/-- `std::map<double,int64_t> delta; delta[y] += v` (no erase: zero entries stay, "every input
    breakpoint is preserved") -/
def deltaBump : List (Int × Int) → Int → Int → List (Int × Int)
  | [], y, v => [(y, v)]
  | (y', c) :: rest, y, v =>
    if y < y' then (y, v) :: (y', c) :: rest
    else if y' < y then (y', c) :: deltaBump rest y v
    else (y', c + v) :: rest

/-- `delta[seg.first.first] += seg.second; delta[seg.first.second] -= seg.second;` -/
def deltaOf (segs : List (Int × Int × Int)) : List (Int × Int) :=
  segs.foldl (fun d s => deltaBump (deltaBump d s.1 s.2.2) s.2.1 (-s.2.2)) []

/-- the `cover / prevY / have` loop; `prev = none` is `have == false` -/
def scan : Int → Option Int → List (Int × Int) → List (Int × Int × Int)
  | _, _, [] => []
  | cover, none, (y, d) :: rest => scan (cover + d) (some y) rest
  | cover, some p, (y, d) :: rest =>
    if cover ≠ 0 then (p, y, cover) :: scan (cover + d) (some y) rest
    else scan (cover + d) (some y) rest

/-- one x-group: intervals `(y0, y1, mult)` ↦ the emitted intervals, bottom to top -/
def mergeLine (segs : List (Int × Int × Int)) : List (Int × Int × Int) := scan 0 none (deltaOf segs)

/-- signed coverage of a point `y` of the vertical line by a list of intervals -/
def cov (segs : List (Int × Int × Int)) (y : Int) : Int :=
  (segs.map fun s => if s.1 < y ∧ y < s.2.1 then s.2.2 else 0).sum

def isVertical (k : Key) : Bool := k.1.1 == k.2.1

/-- sorted insertion of a group abscissa (`std::map<double, vector<…>> groups`) -/
def insertX : List Int → Int → List Int
  | [], x => [x]
  | x' :: rest, x => if x < x' then x :: x' :: rest else if x' < x then x' :: insertX rest x else x' :: rest

/-- `void MergeVerticals1D(PolySet2& ps)` -/
def mergeVerticals1D (ps : PolySet) : PolySet :=
  let vert := ps.filter (fun e => isVertical e.1)
  let rest := ps.filter (fun e => !isVertical e.1)
  let xs := vert.foldl (fun acc e => insertX acc e.1.1.1) []
  xs.foldl (fun acc x =>
    let segs := (vert.filter (fun e => e.1.1.1 == x)).map (fun e => (e.1.1.2, e.1.2.2, e.2))
    (mergeLine segs).foldl (fun acc s => polySetAdd acc (x, s.1) (x, s.2.1) s.2.2) acc) rest

/-! ## the winding pass: EmitBoundary on one status column -/

/-- the multiplicity `EmitBoundary` passes to `PolySetAdd(out_, from, to, ·)` in winding mode
    (`none`: nothing emitted). `fwd = kLexLess(from, to)`. -/
def emitRaw (rule : WindRule) (fwd : Bool) (below above : Int) : Option Int :=
  let insB := isInside rule below
  let insA := isInside rule above
  if insB == insA then none
  else some (if insA then (if fwd then 1 else -1) else (if fwd then -1 else 1))

/-- `PolySetAdd` stores the edge under its lex-forward key: `if (kLexLess(b,a)) { swap; m = -m; }` -/
def polyNorm (fwd : Bool) (m : Int) : Int := if fwd then m else -m

/-- what lands in `out_` for one piece, as a lex-forward signed multiplicity (0: nothing) -/
def emitLex (rule : WindRule) (fwd : Bool) (below above : Int) : Int :=
  match emitRaw rule fwd below above with
  | none => 0
  | some m => polyNorm fwd m

/-- closed form: `+1` when only the upper side is filled, `−1` when only the lower side is -/
def emitSign (rule : WindRule) (below above : Int) : Int :=
  ind (isInside rule above) - ind (isInside rule below)

/-- the loop `for i in [lo,hi): below = w; above = w + lm; w = above; EmitBoundary(…, below, above)`
    started at running winding `w` (= the sum over the strictly-under edges) -/
def emitFrom (rule : WindRule) (fwd : Bool) : Int → List Int → List Int
  | _, [] => []
  | w, m :: ms => emitLex rule fwd w (w + m) :: emitFrom rule fwd (w + m) ms

/-- a whole status column, bottom to top, started below everything (`w = 0`) -/
def emitColumn (rule : WindRule) (ms : List Int) : List Int := emitFrom rule true 0 ms

/-! ## OutEdgesToPolygons -/

def cross (a b : Pt) : Int := a.1 * b.2 - a.2 * b.1
def dot (a b : Pt) : Int := a.1 * b.1 + a.2 * b.2
def sub (a b : Pt) : Pt := (a.1 - b.1, a.2 - b.2)

/-- `int CcwTurnGroup(vec2 ref, vec2 dir)` -/
def ccwTurnGroup (ref dir : Pt) : Nat :=
  let c := cross ref dir
  if c > 0 then 0 else if c < 0 then 1 else if dot ref dir < 0 then 0 else 2

/-- `bool CcwTurnLess(vec2 ref, vec2 a, int edgeA, vec2 b, int edgeB)` -/
def ccwTurnLess (ref a : Pt) (edgeA : Nat) (b : Pt) (edgeB : Nat) : Bool :=
  let ga := ccwTurnGroup ref a
  let gb := ccwTurnGroup ref b
  if ga ≠ gb then decide (ga < gb)
  else
    let c := cross a b
    if c ≠ 0 then decide (c > 0)
    else
      let da := dot a a
      let db := dot b b
      if da ≠ db then decide (da < db) else decide (edgeA < edgeB)

abbrev Graph := List (Nat × Nat)

def Graph.v0 (es : Graph) (e : Nat) : Nat := (es.getD e (0, 0)).1
def Graph.v1 (es : Graph) (e : Nat) : Nat := (es.getD e (0, 0)).2

/-- the unvisited out-edges of `v`, in increasing edge id (`outgoing[v]` minus `visited`) -/
def cands (es : Graph) (visited : List Nat) (v : Nat) : List Nat :=
  (List.range es.length).filter fun e => es.v0 e == v && !visited.contains e

/-- the code's choice: scan `outgoing[destV]`, keep the `CcwTurnLess`-least unvisited edge -/
def pickCcw (verts : List Pt) (es : Graph) (cur : Nat) (cs : List Nat) : Nat :=
  let vp := verts.getD (es.v1 cur) (0, 0)
  let ref := sub (verts.getD (es.v0 cur) (0, 0)) vp
  let step := fun (best : Option (Nat × Pt)) (e : Nat) =>
    let d := sub (verts.getD (es.v1 e) (0, 0)) vp
    match best with
    | none => some (e, d)
    | some (nx, bd) => if ccwTurnLess ref d e bd nx then some (e, d) else some (nx, bd)
  match cs.foldl step none with
  | none => 0
  | some (nx, _) => nx

/-- an arbitrary oracle, forced to answer with one of the candidates -/
def sanitize (choose : Nat → List Nat → Nat) (cur : Nat) (cs : List Nat) : Nat :=
  let n := choose cur cs
  if cs.contains n then n else cs.headD 0

structure WalkResult where
  closed : Bool
  /-- edge ids of the walk, in order -/
  loop : List Nat
  visited : List Nat
deriving Repr, DecidableEq

/-- the inner `while` of `OutEdgesToPolygons` (`acc` = the walk so far, reversed). -/
def walk (es : Graph) (choose : Nat → List Nat → Nat) (startV : Nat) :
    Nat → Nat → List Nat → List Nat → WalkResult
  | 0, _, visited, acc => ⟨false, acc.reverse, visited⟩
  | fuel + 1, cur, visited, acc =>
    let visited' := cur :: visited
    let acc' := cur :: acc
    let destV := es.v1 cur
    if destV = startV then ⟨true, acc'.reverse, visited'⟩
    else
      let cs := cands es visited' destV
      if cs.isEmpty then ⟨false, acc'.reverse, visited'⟩
      else walk es choose startV fuel (sanitize choose cur cs) visited' acc'

structure Extract where
  /-- closed walks, as edge-id lists, in extraction order -/
  loops : List (List Nat)
  allClosed : Bool
  visited : List Nat
deriving Repr, DecidableEq

/-- the outer `for (start = 0; start < nE; ++start)` -/
def extractFrom (es : Graph) (choose : Nat → List Nat → Nat) : List Nat → Extract → Extract
  | [], st => st
  | start :: more, st =>
    if st.visited.contains start then extractFrom es choose more st
    else
      let r := walk es choose (es.v0 start) (es.length + 1) start st.visited []
      extractFrom es choose more
        ⟨if r.closed then st.loops ++ [r.loop] else st.loops, st.allClosed && r.closed, r.visited⟩

def extractAll (es : Graph) (choose : Nat → List Nat → Nat) : Extract :=
  extractFrom es choose (List.range es.length) ⟨[], true, []⟩

/-- `p` is a walk in the graph from vertex `a` to vertex `b` (edge ids, head-to-tail) -/
def WalkFromTo (es : Graph) : Nat → List Nat → Nat → Prop
  | a, [], b => a = b
  | a, e :: rest, b => es.v0 e = a ∧ WalkFromTo es (es.v1 e) rest b

/-- number of edges leaving / entering `v` -/
def outdeg (es : Graph) (v : Nat) : Nat := (List.range es.length).countP fun e => es.v0 e == v
def indeg (es : Graph) (v : Nat) : Nat := (List.range es.length).countP fun e => es.v1 e == v

/-- the double loop of `PushSimpleLoops` (`i` ascending from 1, then `j` ascending below `i`, stop at
    the first `loop[i] == loop[j]`) as one left-to-right scan: `seen` is the repeat-free prefix
    `loop[0..i)`; the first `x = loop[i]` that occurs in it is reported with the index `j` of its
    first occurrence. -/
def firstRepeat : List Nat → List Nat → Option (Nat × Nat)
  | [], _ => none
  | x :: rest, seen =>
    if seen.contains x then some (seen.idxOf x, seen.length) else firstRepeat rest (seen ++ [x])

def findSplit (l : List Nat) : Option (Nat × Nat) := firstRepeat l []

/-- `PushSimpleLoops` on vertex ids; `PushLoopIfNondegenerate` keeps loops of ≥ 3 vertices. -/
def pushSimpleLoops : Nat → List Nat → List (List Nat) → List (List Nat)
  | 0, l, out => if l.length ≥ 3 then out ++ [l] else out
  | fuel + 1, l, out =>
    match findSplit l with
    | none => if l.length ≥ 3 then out ++ [l] else out
    | some (j, i) =>
      let simple := (l.drop j).take (i - j)
      let out' := if simple.length ≥ 3 then out ++ [simple] else out
      -- erase [j+1, i+1)
      pushSimpleLoops fuel (l.take (j + 1) ++ l.drop (i + 1)) out'

/-- `OutEdgesToPolygons` with the code's own oracle, on integer vertices: the polygons as
    vertex-id loops -/
def outEdgesToPolygons (verts : List Pt) (es : Graph) : List (List Nat) × Bool :=
  let r := extractAll es (pickCcw verts es)
  let loopsV := r.loops.map fun l => l.map es.v0
  (loopsV.foldl (fun out l => if l.length ≥ 3 then pushSimpleLoops l.length l out else out) [], r.allClosed)

/-! ## pixel semantics of Boolean programs over lattice rectangles (executable specification) -/

inductive Expr
  | rect (x0 y0 x1 y1 : Int)
  | translate (dx dy : Int) (e : Expr)
  | rot90 (e : Expr)
  | mirrorX (e : Expr)
  | bin (op : OpType) (a b : Expr)
  | batch (op : OpType) (es : List Expr)
deriving Repr, Inhabited

mutual
/-- is the unit pixel `[i,i+1]×[j,j+1]` part of the point set denoted by the program?
    `rot90` is the rotation by +90° about the origin `(x,y) ↦ (−y,x)`, `mirrorX` is `x ↦ −x`.
    `batch op []` is empty, `batch op [e] = e`, `batch subtract (e :: es) = e − ⋃ es`. -/
def pixelIn : Expr → Int → Int → Bool
  | .rect x0 y0 x1 y1, i, j => decide (x0 ≤ i ∧ i + 1 ≤ x1 ∧ y0 ≤ j ∧ j + 1 ≤ y1)
  | .translate dx dy e, i, j => pixelIn e (i - dx) (j - dy)
  | .rot90 e, i, j => pixelIn e j (-i - 1)
  | .mirrorX e, i, j => pixelIn e (-i - 1) j
  | .bin .add a b, i, j => pixelIn a i j || pixelIn b i j
  | .bin .subtract a b, i, j => pixelIn a i j && !pixelIn b i j
  | .bin .intersect a b, i, j => pixelIn a i j && pixelIn b i j
  | .batch _ [], _, _ => false
  | .batch .add (e :: es), i, j => pixelIn e i j || pixelAny es i j
  | .batch .subtract (e :: es), i, j => pixelIn e i j && !pixelAny es i j
  | .batch .intersect (e :: es), i, j => pixelIn e i j && pixelAll es i j
def pixelAny : List Expr → Int → Int → Bool
  | [], _, _ => false
  | e :: es, i, j => pixelIn e i j || pixelAny es i j
def pixelAll : List Expr → Int → Int → Bool
  | [], _, _ => true
  | e :: es, i, j => pixelIn e i j && pixelAll es i j
end

/-- all pixels of the window `[lo,hi)²` that belong to the program, row-major (j outer) -/
def pixelEval (lo hi : Int) (e : Expr) : List (Int × Int) :=
  let n := (hi - lo).toNat
  (List.range n).flatMap fun (dj : Nat) => (List.range n).filterMap fun (di : Nat) =>
    let i : Int := lo + (di : Int)
    let j : Int := lo + (dj : Int)
    if pixelIn e i j then some (i, j) else none

end MV.Sweep2
