/-
Model for the PROPERTY INTERPOLATION half of property C07 ("every output triangle traces back to
its source face and interpolated properties").  Core Lean only; linked into `mvdriver`.

Written ONCE over the `Scalar` interface below, line for line from the C++:

  dot / cross / sub     include/manifold/linalg.h:1610-1620 (`sum` folds from `T(0)`:
                        `dot(a,b) = ((0 + a.x*b.x) + a.y*b.y) + a.z*b.z`)
  getBarycentric        `GetBarycentric`, src/shared.h:150-196
  baryTri               `Barycentric::operator()`, src/boolean_result.cpp:586-606
  classify, cornerKey,
  interpRow, cornerStep,
  createProperties      `CreateProperties`, src/boolean_result.cpp:619-735

`Float` is the instance the driver runs (`checks/c07.py` compares it bit for bit with the real
functions); `MV/Props/C07b.lean` proves the theorems about THE SAME definitions, the combinatorial
ones for every `Scalar`, the arithmetic ones at a linearly ordered field.
-/
namespace MV.PropInterp

/-- what the modelled code needs from `double`: `lt` is C++ `<`, `beq` is `==` -/
class Scalar (α : Type) where
  zero : α
  one : α
  add : α → α → α
  sub : α → α → α
  mul : α → α → α
  div : α → α → α
  neg : α → α
  lt : α → α → Bool
  beq : α → α → Bool

instance : Scalar Float where
  zero := 0.0
  one := 1.0
  add a b := a + b
  sub a b := a - b
  mul a b := a * b
  div a b := a / b
  neg a := -a
  lt a b := decide (a < b)
  beq a b := a == b

structure V3 (α : Type) where
  x : α
  y : α
  z : α
deriving Repr, Inhabited

section Poly
variable {α : Type} [Scalar α]
open Scalar

local infixl:65 " +. " => Scalar.add
local infixl:65 " -. " => Scalar.sub
local infixl:70 " *. " => Scalar.mul
local infixl:70 " /. " => Scalar.div

def vsub (a b : V3 α) : V3 α := ⟨a.x -. b.x, a.y -. b.y, a.z -. b.z⟩
/-- `la::dot(a, b) = sum(a * b) = ((T(0) + a.x*b.x) + a.y*b.y) + a.z*b.z` -/
def dot (a b : V3 α) : α := ((Scalar.zero +. a.x *. b.x) +. a.y *. b.y) +. a.z *. b.z
/-- `la::cross` (linalg.h:1610) -/
def cross (a b : V3 α) : V3 α :=
  ⟨a.y *. b.z -. a.z *. b.y, a.z *. b.x -. a.x *. b.z, a.x *. b.y -. a.y *. b.x⟩

/-- `Next3`, `Prev3` (src/utils.h:45-53) -/
def next3 : Nat → Nat
  | 0 => 1
  | 1 => 2
  | _ => 0
def prev3 : Nat → Nat
  | 0 => 2
  | 1 => 0
  | _ => 1

/-- `vec3 uvw(0.0); uvw[i] = 1;` -/
def unitV : Nat → V3 α
  | 0 => ⟨one, zero, zero⟩
  | 1 => ⟨zero, one, zero⟩
  | _ => ⟨zero, zero, one⟩

def V3.get (a : V3 α) : Nat → α
  | 0 => a.x
  | 1 => a.y
  | _ => a.z

/-! ## `GetBarycentric` (src/shared.h:150-196) -/

/-- `d2[0] > d2[1] && d2[0] > d2[2] ? 0 : d2[1] > d2[2] ? 1 : 2` (l.156-158) -/
def longSide (d0 d1 d2 : α) : Nat :=
  if lt d1 d0 && lt d2 d0 then 0 else if lt d2 d1 then 1 else 2

/-- one iteration of the loop of the triangle branch (l.177-183): `e = edges[i]`,
`w = v - triPos[Next3(i)]`:
`uvw[i] = area2v < d2[i] * tol2 ? 0 : dot(crossPv, crossP)` -/
def edgeWeight (e w crossP : V3 α) (d2i tol2 : α) : α :=
  let crossPv := cross e w
  let area2v := dot crossPv crossPv
  if lt area2v (d2i *. tol2) then zero else dot crossPv crossP

/-- `GetBarycentric(v, triPos, tolerance)` with `triPos = (t0, t1, t2)` -/
def getBarycentric (v t0 t1 t2 : V3 α) (tolerance : α) : V3 α :=
  let e0 := vsub t2 t1
  let e1 := vsub t0 t2
  let e2 := vsub t1 t0
  let d0 := dot e0 e0
  let d1 := dot e1 e1
  let d2 := dot e2 e2
  let ls := longSide d0 d1 d2
  let crossP := cross e0 e1
  let area2 := dot crossP crossP
  let tol2 := tolerance *. tolerance
  -- l.164-171: return exactly equal if within tolerance of vert
  if lt (dot (vsub v t0) (vsub v t0)) tol2 then unitV 0
  else if lt (dot (vsub v t1) (vsub v t1)) tol2 then unitV 1
  else if lt (dot (vsub v t2) (vsub v t2)) tol2 then unitV 2
  else
    let dL := (V3.mk d0 d1 d2).get ls
    if lt dL tol2 then ⟨one, zero, zero⟩                     -- point (l.173-174)
    else if lt (dL *. tol2) area2 then                        -- triangle (l.175-185)
      let u0 := edgeWeight e0 (vsub v t1) crossP d0 tol2
      let u1 := edgeWeight e1 (vsub v t2) crossP d1 tol2
      let u2 := edgeWeight e2 (vsub v t0) crossP d2 tol2
      let s := (u0 +. u1) +. u2
      ⟨u0 /. s, u1 /. s, u2 /. s⟩
    else                                                       -- line (l.186-195)
      match ls with
      | 0 =>
        let alpha := dot (vsub v t1) e0 /. d0
        ⟨zero, one -. alpha, alpha⟩
      | 1 =>
        let alpha := dot (vsub v t2) e1 /. d1
        ⟨alpha, zero, one -. alpha⟩
      | _ =>
        let alpha := dot (vsub v t0) e2 /. d2
        ⟨one -. alpha, alpha, zero⟩

/-! ## `CreateProperties` (src/boolean_result.cpp:619-735) -/

/-- what `CreateProperties` reads of an operand: `NumProp()`, `NumPropVert()`, `properties_`,
`halfedge_.Prop(h)`; and what `Barycentric` reads: `halfedge_.Start(h)`, `vertPos_` -/
structure Src (α : Type) where
  numProp : Nat
  numPropVert : Nat
  props : Array α
  heProp : Array Nat
  heStart : Array Nat
  vertPos : Array (V3 α)

/-- one triangle of `outR`: `verts = none` when `halfedge_.Start(3 * tri) < 0` (collapsed),
`pq = (ref.meshID == 0)`, `face = ref.faceID` (the source triangle),
`hasNormals = TriHasNormals(inQ.meshRelation_, ref.faceID)` (read for Q triangles only) -/
structure RTri where
  verts : Option (Nat × Nat × Nat)
  pq : Bool
  face : Nat
  hasNormals : Bool
deriving Repr, Inhabited

/-- `ivec4 key` (l.660): `x = PQ`, `y = idMissProp | vert`, `z = -1 | propVert | min`, `w = -1 | max` -/
structure Key where
  x : Bool
  y : Nat
  z : Int
  w : Int
deriving DecidableEq, Repr, Inhabited

/-- where the inner `for j` loop (l.663-671) leaves `edge` / `key[2]`:
`retained j` — it broke at the first `uvw[j] == 1` (`edge = -1`);
`edge j` — no component is 1 and `j` is the LAST component equal to 0;
`interior` — `edge == -2` -/
inductive CClass where
  | retained (j : Nat)
  | edge (j : Nat)
  | interior
deriving DecidableEq, Repr, Inhabited

def classify (uvw : V3 α) : CClass :=
  if beq uvw.x one then .retained 0
  else
    let e0 : Option Nat := if beq uvw.x zero then some 0 else none
    if beq uvw.y one then .retained 1
    else
      let e1 : Option Nat := if beq uvw.y zero then some 1 else e0
      if beq uvw.z one then .retained 2
      else
        let e2 : Option Nat := if beq uvw.z zero then some 2 else e1
        match e2 with
        | some j => .edge j
        | none => .interior

/-- everything the body of the corner loop reads for one corner (l.655-733) -/
structure Corner (α : Type) where
  pq : Bool
  face : Nat
  hasNormals : Bool
  vert : Nat
  uvw : V3 α

/-- the operand a corner interpolates from: `PQ ? inP : inQ` -/
def srcOf (P Q : Src α) (pq : Bool) : Src α := if pq then P else Q

/-- `halfedge.Prop(3 * ref.faceID + j)` -/
def Src.propAt (s : Src α) (face j : Nat) : Nat := s.heProp.getD (3 * face + j) 0

/-- l.660-684: the dedup key of a corner; `idMiss = outR.NumVert()` -/
def cornerKey (P Q : Src α) (idMiss : Nat) (c : Corner α) : Key :=
  let s := srcOf P Q c.pq
  if s.numProp > 0 then
    match classify c.uvw with
    | .retained j => ⟨c.pq, idMiss, Int.ofNat (s.propAt c.face j), -1⟩
    | .edge j =>
      let p0 := s.propAt c.face (next3 j)
      let p1 := s.propAt c.face (prev3 j)
      ⟨c.pq, c.vert, Int.ofNat (min p0 p1), Int.ofNat (max p0 p1)⟩
    | .interior => ⟨c.pq, c.vert, -1, -1⟩
  else ⟨c.pq, idMiss, -1, -1⟩

/-- l.644-648: `!PQ && invertQ && oldNumProp >= 3 && TriHasNormals(inQ.meshRelation_, ref.faceID)` -/
def negateNormals (Q : Src α) (invertQ : Bool) (c : Corner α) : Bool :=
  !c.pq && invertQ && decide (Q.numProp ≥ 3) && c.hasNormals

/-- l.720-733: the new row of `outR.properties_` -/
def interpRow (P Q : Src α) (invertQ : Bool) (numProp : Nat) (c : Corner α) : List α :=
  let s := srcOf P Q c.pq
  let neg? := negateNormals Q invertQ c
  (List.range numProp).map fun p =>
    if p < s.numProp then
      let old : Nat → α := fun j => s.props.getD (s.numProp * s.propAt c.face j + p) zero
      let val := dot c.uvw ⟨old 0, old 1, old 2⟩
      if neg? && p < 3 then neg val else val
    else zero

/-- the two de-duplication tables as association lists in insertion order, the rows pushed onto
`outR.properties_` so far (`idx = rows.size`), the `SetProp` calls in corner order, and whether a
table was indexed out of range (`propMissIdx[x]` has `missSize x` slots, `propIdx` has
`idMiss + 1` bins) -/
structure St (α : Type) where
  miss : List ((Bool × Nat) × Nat)
  bins : List ((Nat × Bool × Int × Int) × Nat)
  rows : Array (List α)
  out : Array Nat
  oob : Bool

def St.init : St α := ⟨[], [], #[], #[], false⟩

/-- `key.y == idMissProp && key.z >= 0` (l.697): the corner goes through `propMissIdx` -/
def Key.isMiss (idMiss : Nat) (k : Key) : Bool := k.y == idMiss && decide (0 ≤ k.z)

/-- sizes of `propMissIdx[0]` (`inQ.NumPropVert()`) and `propMissIdx[1]` (`inP.NumPropVert()`)
(l.634-635); index = `key.x` = PQ -/
def missSize (P Q : Src α) (x : Bool) : Nat := if x then P.numPropVert else Q.numPropVert

/-- l.697-719 + the row: one corner -/
def cornerStep (P Q : Src α) (invertQ : Bool) (numProp idMiss : Nat) (st : St α) (c : Corner α) :
    St α :=
  let key := cornerKey P Q idMiss c
  if key.isMiss idMiss then
    let st := { st with oob := st.oob || decide (missSize P Q key.x ≤ key.z.toNat) }
    match st.miss.lookup (key.x, key.z.toNat) with
    | some entry => { st with out := st.out.push entry }
    | none =>
      let idx := st.rows.size
      { st with miss := st.miss ++ [((key.x, key.z.toNat), idx)], out := st.out.push idx,
                rows := st.rows.push (interpRow P Q invertQ numProp c) }
  else
    let st := { st with oob := st.oob || decide (idMiss < key.y) }
    match st.bins.lookup (key.y, key.x, key.z, key.w) with
    | some entry => { st with out := st.out.push entry }
    | none =>
      let idx := st.rows.size
      { st with bins := st.bins ++ [((key.y, key.x, key.z, key.w), idx)], out := st.out.push idx,
                rows := st.rows.push (interpRow P Q invertQ numProp c) }

/-- the loop `for tri … for i` over the corners of the non-collapsed triangles, in order -/
def runCorners (P Q : Src α) (invertQ : Bool) (idMiss : Nat) (cs : List (Corner α)) : St α :=
  cs.foldl (cornerStep P Q invertQ (max P.numProp Q.numProp) idMiss) St.init

/-- `Barycentric::operator()(tri)` (l.586-606) for a non-collapsed triangle: the three corners -/
def baryTri (P Q : Src α) (posR : Array (V3 α)) (eps : α) (t : RTri) : List (Corner α) :=
  match t.verts with
  | none => []
  | some (v0, v1, v2) =>
    let s := srcOf P Q t.pq
    let tp : Nat → V3 α := fun j => s.vertPos.getD (s.heStart.getD (3 * t.face + j) 0) ⟨zero, zero, zero⟩
    [v0, v1, v2].map fun v =>
      ⟨t.pq, t.face, t.hasNormals, v,
       getBarycentric (posR.getD v ⟨zero, zero, zero⟩) (tp 0) (tp 1) (tp 2) eps⟩

/-- `CreateProperties(outR, inP, inQ, invertQ)`: `none` on the `numProp == 0` early return
(l.627: nothing is written), otherwise the final state; `posR = outR.vertPos_`,
`eps = outR.epsilon_`, `idMiss = outR.NumVert()` -/
def createProperties (P Q : Src α) (invertQ : Bool) (posR : Array (V3 α)) (eps : α)
    (tris : List RTri) : Option (St α) :=
  if max P.numProp Q.numProp == 0 then none
  else some (runCorners P Q invertQ posR.size (tris.flatMap (baryTri P Q posR eps)))

/-- every index the model reads is in range (checked by the driver before running) -/
def Src.valid (s : Src α) : Bool :=
  s.heStart.size == s.heProp.size && s.heProp.size % 3 == 0 &&
  s.heStart.all (· < s.vertPos.size) &&
  (s.numProp == 0 || (s.props.size == s.numProp * s.numPropVert && s.heProp.all (· < s.numPropVert)))

def RTri.valid (P Q : Src α) (nVertR : Nat) (t : RTri) : Bool :=
  3 * t.face + 2 < (srcOf P Q t.pq).heProp.size &&
  match t.verts with
  | none => true
  | some (a, b, c) => a < nVertR && b < nVertR && c < nVertR

end Poly

end MV.PropInterp
