import MV.Model.Halfedge
/-
Transliteration of the topological editing primitives of /repo/src/edge_op.cpp over the
struct-of-arrays `Halfedges` (shared.h:212): three `int` arrays `start_ / paired_ / propVert_`,
tombstone value -1.  Core Lean only; executable; linked into `mvdriver` (engine `edgeop`).

State: the three arrays plus two counters (the only facts about `vertPos_` and `properties_` the
topological code uses): `nVert = vertPos_.size()` (a new vertex gets this index) and
`nPropVert = properties_.size() / numProp` (a new property vertex gets this index).  Vertex
positions, `vertNormal_`, `faceNormal_`, `triRef` are NOT modelled; writes of NaN into `vertPos_`
(the "vertex removed" mark) are not modelled.

Every C++ array read `x[k]` is `rd x k`, every write `wr x k v` (MV.Halfedge): an index outside
`[0,size)` - undefined behaviour in the C++ - makes the model fail with `HErr.oob`.  Loops around
a vertex (`while (current != stop)`, `ForVert`) take fuel `size+1`: a walk along `pair ∘ next`
of an injective pairing visits each halfedge at most once, so a loop that needs more than
`size` iterations never terminates in the C++; the model answers `HErr.fuel`.

Geometric decisions are arguments: `collapseEdge` receives `allowed` (= "none of the guards of
edge_op.cpp:826-863 returned false"; the guards only READ the halfedge arrays), `hasProp`
(= `NumProp() > 0`).

What is modelled (C++ line ranges of edge_op.cpp)
* shared.h:33-36 `NextHalfedge` on `int` (C++ `%` truncates: `Int.tmod`)      -> `nextI`
* 25-31   `TriOf`                                                             -> `triOf`
* 718-721 `PairUp`                                                            -> `pairUp`
* 726-735 `UpdateVert`                                                        -> `updateVert`
* 740-756 `FormLoop`                                                          -> `formLoop`
* 758-766 `CollapseTri`                                                       -> `collapseTri`
* 768-792 `RemoveIfFolded`                                                    -> `removeIfFolded`
* 799-913 `CollapseEdge`, 920-1036 `CollapseEdge2` (topological part)         -> `collapseEdge`
* 261-317 `SwapEdge` (re-wiring, property re-indexing, duplicate-edge split)  -> `swapEdge`
* 632-716 `DedupeEdge`                                                        -> `dedupeEdge`
* 1181-1202 `SplitPinchedVerts`, serial branch                                -> `splitPinchedVerts`
* impl.h:284-290 `ForVert`                                                    -> `forVertSetVert`, `forVertMark`
-/
namespace MV.EdgeOp
open MV.Halfedge (HErr rd wr)

/-- `halfedge_` plus the two sizes the topological code reads -/
structure HE where
  start : Array Int
  paired : Array Int
  prop : Array Int
  nVert : Nat
  nPropVert : Nat
deriving Repr, DecidableEq, Inhabited

abbrev M := Except HErr

/-- `NextHalfedge` (shared.h:33): `current += current % 3 == 2 ? -2 : 1` with C++ `%` -/
def nextI (e : Int) : Int := if Int.tmod e 3 = 2 then e - 2 else e + 1

/-- `TriOf` (edge_op.cpp:25) -/
def triOf (e : Int) : Int × Int × Int := (e, nextI e, nextI (nextI e))

namespace HE
/-- `Halfedges::Start/End/Pair/Prop` (shared.h:222-226) -/
def getStart (s : HE) (e : Int) : M Int := rd s.start e
def getEnd (s : HE) (e : Int) : M Int := rd s.start (nextI e)
def getPair (s : HE) (e : Int) : M Int := rd s.paired e
def getProp (s : HE) (e : Int) : M Int := rd s.prop e
def getPropEnd (s : HE) (e : Int) : M Int := rd s.prop (nextI e)

/-- `SetStart/SetEnd/SetPair/SetProp` (shared.h:234-237) -/
def setStart (s : HE) (e v : Int) : M HE := do
  let a ← wr s.start e v
  pure { s with start := a }
def setEnd (s : HE) (e v : Int) : M HE := s.setStart (nextI e) v
def setPair (s : HE) (e v : Int) : M HE := do
  let a ← wr s.paired e v
  pure { s with paired := a }
def setProp (s : HE) (e v : Int) : M HE := do
  let a ← wr s.prop e v
  pure { s with prop := a }

/-- `Halfedges::Set` (shared.h:245-249) -/
def set (s : HE) (e st pr pp : Int) : M HE := do
  let s ← s.setStart e st
  let s ← s.setPair e pr
  s.setProp e pp

/-- `Halfedges::push_back` (shared.h:251-255) -/
def push (s : HE) (st pr pp : Int) : HE :=
  { s with start := s.start.push st, paired := s.paired.push pr, prop := s.prop.push pp }

/-- `halfedge_.size()` -/
def size (s : HE) : Nat := s.start.size
end HE

/-- `Impl::PairUp` (edge_op.cpp:718-721) -/
def pairUp (s : HE) (e0 e1 : Int) : M HE := do
  let s ← s.setPair e0 e1
  s.setPair e1 e0

/-- the `while (current != endEdge)` of `UpdateVert` (edge_op.cpp:728-734) -/
def updateVertLoop (vert endEdge : Int) : Nat → Int → HE → M HE
  | 0, _, _ => .error .fuel
  | f + 1, current, s =>
    if current = endEdge then pure s else do
      let s ← s.setEnd current vert
      let c := nextI current
      let s ← s.setStart c vert
      let c ← s.getPair c
      updateVertLoop vert endEdge f c s

/-- `Impl::UpdateVert` (edge_op.cpp:726-735) -/
def updateVert (s : HE) (vert startEdge endEdge : Int) : M HE :=
  updateVertLoop vert endEdge (s.size + 1) startEdge s

/-- `Impl::CollapseTri` (edge_op.cpp:758-766) -/
def collapseTri (s : HE) (t : Int × Int × Int) : M HE := do
  let p1 ← s.getPair t.2.1
  if p1 = -1 then pure s else
  let pair1 ← s.getPair t.2.1
  let pair2 ← s.getPair t.2.2
  let s ← pairUp s pair1 pair2
  let p ← s.getProp t.1
  let s ← s.set t.1 (-1) (-1) p
  let p ← s.getProp t.2.1
  let s ← s.set t.2.1 (-1) (-1) p
  let p ← s.getProp t.2.2
  s.set t.2.2 (-1) (-1) p

/-- `Impl::RemoveIfFolded` (edge_op.cpp:768-792).  The `vertPos_[…] = NaN` marks of lines
773-784 are not modelled (they index `vertPos_` with `Start(…)` of live halfedges). -/
def removeIfFolded (s : HE) (edge : Int) : M HE := do
  let t0 := triOf edge
  let pe ← s.getPair edge
  let t1 := triOf pe
  let p01 ← s.getPair t0.2.1
  if p01 = -1 then pure s else
  let s02 ← s.getStart t0.2.2
  let s12 ← s.getStart t1.2.2
  if s02 = s12 then do
    let a ← s.getPair t0.2.1
    let b ← s.getPair t1.2.2
    let s ← pairUp s a b
    let c ← s.getPair t0.2.2
    let d ← s.getPair t1.2.1
    let s ← pairUp s c d
    let s ← s.set t0.1 (-1) (-1) (-1)
    let s ← s.set t1.1 (-1) (-1) (-1)
    let s ← s.set t0.2.1 (-1) (-1) (-1)
    let s ← s.set t1.2.1 (-1) (-1) (-1)
    let s ← s.set t0.2.2 (-1) (-1) (-1)
    s.set t1.2.2 (-1) (-1) (-1)
  else pure s

/-- `Impl::FormLoop` (edge_op.cpp:740-756).  `vertPos_.push_back(vertPos_[Start(current)])`,
`…[End(current)]`: the two reads of `halfedge_` are performed, the positions are not modelled. -/
def formLoop (s : HE) (current end_ : Int) : M HE := do
  let startVert : Int := s.nVert
  let _ ← s.getStart current
  let endVert : Int := s.nVert + 1
  let _ ← s.getEnd current
  let s := { s with nVert := s.nVert + 2 }
  let oldMatch ← s.getPair current
  let newMatch ← s.getPair end_
  let s ← updateVert s startVert oldMatch newMatch
  let s ← updateVert s endVert end_ current
  let s ← pairUp s current newMatch
  let s ← pairUp s end_ oldMatch
  removeIfFolded s end_

/-- "Orbit endVert" (edge_op.cpp:866-873 / 978-985): pushes `NextHalfedge(current)` of every
step of the walk from `Pair(tri0edge[1])` to `tri1edge[2]` -/
def orbitEnd (s : HE) (stop : Int) : Nat → Int → Array Int → M (Array Int)
  | 0, _, _ => .error .fuel
  | f + 1, current, edges =>
    if current = stop then pure edges else do
      let c := nextI current
      let edges := edges.push c
      let c ← s.getPair c
      orbitEnd s stop f c edges

/-- the `for (i < edges.size()) if (vert == End(edges[i]))` search (edge_op.cpp:898-899):
first index `i ≥ k` with `End(edges[i]) = vert` -/
def findEdge (s : HE) (vert : Int) (edges : Array Int) : Nat → Nat → M (Option Nat)
  | 0, _ => pure none
  | n + 1, i => do
    let e ← rd edges i
    let v ← s.getEnd e
    if vert = v then pure (some i) else findEdge s vert edges n (i + 1)

/-- the "Orbit startVert" loop (edge_op.cpp:884-907 / 1009-1030); returns the state, the final
`start` and the remaining `edges` -/
def collapseLoop (hasProp : Bool) (sp0 ep0 sp1 ep1 stop : Int) :
    Nat → Int → Int → Array Int → HE → M (HE × Int × Array Int)
  | 0, _, _, _, _ => .error .fuel
  | f + 1, current, start, edges, s =>
    if current = stop then pure (s, start, edges) else do
      let current := nextI current
      let s ← if hasProp then (do
                let p ← s.getProp current
                if p = sp0 then s.setProp current ep0
                else if p = sp1 then s.setProp current ep1
                else pure s)
              else pure s
      let vert ← s.getEnd current
      let next ← s.getPair current
      match ← findEdge s vert edges edges.size 0 with
      | some i => do
        let ei ← rd edges i
        let s ← formLoop s ei current
        collapseLoop hasProp sp0 ep0 sp1 ep1 stop f next next (edges.extract 0 i) s
      | none => collapseLoop hasProp sp0 ep0 sp1 ep1 stop f next start edges s

/-- `Impl::CollapseEdge` (edge_op.cpp:799-913), topological part.  `edges0` is the content of the
caller's scratch buffer at entry (the C++ does not clear it; every caller passes it empty),
`allowed` the outcome of the geometric guards (lines 826-863; `true` when `shortEdge`).
Returns the new state and the C++ return value. -/
def collapseEdge (s : HE) (edge : Int) (edges0 : Array Int) (allowed hasProp : Bool) :
    M (HE × Bool) := do
  let pair ← s.getPair edge
  if pair < 0 then pure (s, false) else
  let t0 := triOf edge
  let t1 := triOf pair
  let _startVert ← s.getStart t0.1
  let endVert ← s.getStart t0.2.1
  let start ← s.getPair t1.2.1
  if !allowed then pure (s, false) else
  let c0 ← s.getPair t0.2.1
  let edges ← orbitEnd s t1.2.2 (s.size + 1) c0 edges0
  let s ← collapseTri s t1
  let sp0 ← s.getProp t0.1
  let ep0 ← s.getProp t0.2.1
  let sp1 ← s.getProp t1.2.1
  let ep1 ← s.getProp t1.1
  let (s, start, _) ← collapseLoop hasProp sp0 ep0 sp1 ep1 t0.2.2 (s.size + 1) start start edges s
  let s ← updateVert s endVert start t0.2.2
  let s ← collapseTri s t0
  let s ← removeIfFolded s start
  pure (s, true)

/-- `Impl::CollapseEdge2` (edge_op.cpp:920-1036), topological part: `edges.resize(0)` first, the
four property indices are read before `CollapseTri(tri1edge)` instead of after it (`CollapseTri`
rewrites `propVert_` with the value it already holds, so the values are the same), otherwise the
same statements as `CollapseEdge`. -/
def collapseEdge2 (s : HE) (edge : Int) (allowed hasProp : Bool) : M (HE × Bool) :=
  collapseEdge s edge #[] allowed hasProp

/-- the `while (current != tri0edge[1])` of `SwapEdge` (edge_op.cpp:306-316) -/
def swapLoop (endVert stop t02 : Int) : Nat → Int → HE → M HE
  | 0, _, _ => .error .fuel
  | f + 1, current, s =>
    if current = stop then pure s else do
      let current := nextI current
      let v ← s.getEnd current
      if v = endVert then do
        let s ← formLoop s t02 current
        removeIfFolded s t02
      else do
        let current ← s.getPair current
        swapLoop endVert stop t02 f current s

/-- `Impl::SwapEdge` (edge_op.cpp:261-317): halfedge re-wiring, the re-indexing of `propVert_`
(`hasProp` = `numProp > 0`; the interpolated property row itself is not modelled, only its
index `properties_.size() / numProp`), and the split when the new edge already exists. -/
def swapEdge (s : HE) (edge : Int) (hasProp : Bool) : M HE := do
  let pair ← s.getPair edge
  let t0 := triOf edge
  let t1 := triOf pair
  let v ← s.getStart t1.2.2
  let s ← s.setStart t0.1 v
  let v ← s.getStart t0.2.2
  let s ← s.setStart t1.1 v
  let p ← s.getPair t1.2.2
  let s ← pairUp s t0.1 p
  let p ← s.getPair t0.2.2
  let s ← pairUp s t1.1 p
  let s ← pairUp s t0.2.2 t1.2.2
  let s ← if hasProp then (do
      let propIdx0 ← s.getProp t1.1
      let propIdx1 ← s.getProp t1.2.1
      let s ← s.setProp t0.2.1 propIdx0
      let p ← s.getProp t1.2.2
      let s ← s.setProp t0.1 p
      -- edge_op.cpp (after fix fd425a00): the far side's mid property vertex is reused only when the far side is
      -- continuous with this triangle along the WHOLE edge (matching property vertices at both ends, one in the middle)
      let far0 ← s.getPair t0.2.1
      let far1 ← s.getPair t1.1
      let midProp ← s.getProp far0
      let fresh : HE → M HE := fun s => do
        let newProp : Int := s.nPropVert
        let s := { s with nPropVert := s.nPropVert + 1 }
        let s ← s.setProp t1.1 newProp
        s.setProp t0.2.2 newProp
      let pe0 ← s.getPropEnd far0
      if propIdx0 = pe0 then do
        let p1 ← s.getProp far1
        if propIdx1 = p1 then do
          let pe1 ← s.getPropEnd far1
          if midProp = pe1 then do
            let s ← s.setProp t1.1 midProp
            s.setProp t0.2.2 midProp
          else fresh s
        else fresh s
      else fresh s)
    else pure s
  let current ← s.getPair t1.1
  let endVert ← s.getEnd t1.2.1
  swapLoop endVert t0.2.1 t0.2.2 (s.size + 1) current s

/-- `ForVert(h, [newVert](e){ SetStart(e,newVert); SetEnd(Pair(e),newVert); })`
(impl.h:284-290 with the lambda of edge_op.cpp:688-691 / 711-714) -/
def forVertSetVert (newVert h : Int) : Nat → Int → HE → M HE
  | 0, _, _ => .error .fuel
  | f + 1, current, s => do
    let p ← s.getPair current
    let current := nextI p
    let s ← s.setStart current newVert
    let p ← s.getPair current
    let s ← s.setEnd p newVert
    if current = h then pure s else forVertSetVert newVert h f current s

/-- first loop of `DedupeEdge` (edge_op.cpp:639-680); returns the state and the final `current` -/
def dedupeLoop1 (edge nextEdge startVert endVert endProp : Int) :
    Nat → Int → HE → M (HE × Int)
  | 0, _, _ => .error .fuel
  | f + 1, current, s =>
    if current = edge then pure (s, current) else do
      let vert ← s.getStart current
      if vert = startVert then do
        let newVert : Int := s.nVert
        let s := { s with nVert := s.nVert + 1 }
        let n ← s.getPair (nextI current)
        let current := n
        let opposite ← s.getPair nextEdge
        let s ← updateVert s newVert current opposite
        let newHalfedge : Int := s.size
        let outsideVert ← s.getStart current
        let s := s.push endVert (-1) endProp
        let s := s.push newVert (-1) endProp
        let pc ← s.getProp current
        let s := s.push outsideVert (-1) pc
        let p ← s.getPair current
        let s ← pairUp s (newHalfedge + 2) p
        let s ← pairUp s (newHalfedge + 1) current
        let newHalfedge := newHalfedge + 3
        let outsideVert ← s.getStart opposite
        let s := s.push newVert (-1) endProp
        let s := s.push endVert (-1) endProp
        let po ← s.getProp opposite
        let s := s.push outsideVert (-1) po
        let p ← s.getPair opposite
        let s ← pairUp s (newHalfedge + 2) p
        let s ← pairUp s (newHalfedge + 1) opposite
        let s ← pairUp s newHalfedge (newHalfedge - 3)
        pure (s, current)
      else do
        let n ← s.getPair (nextI current)
        dedupeLoop1 edge nextEdge startVert endVert endProp f n s

/-- second loop of `DedupeEdge` (edge_op.cpp:697-703); returns the final `current` -/
def dedupeLoop2 (s : HE) (pair endVert : Int) : Nat → Int → M Int
  | 0, _ => .error .fuel
  | f + 1, current =>
    if current = pair then pure current else do
      let vert ← s.getStart current
      if vert = endVert then pure current else do
        let n ← s.getPair (nextI current)
        dedupeLoop2 s pair endVert f n

/-- `Impl::DedupeEdge` (edge_op.cpp:632-716) -/
def dedupeEdge (s : HE) (edge : Int) : M HE := do
  let nextEdge := nextI edge
  let startVert ← s.getStart edge
  let endVert ← s.getStart nextEdge
  let endProp ← s.getProp nextEdge
  let current ← s.getPair nextEdge
  let (s, current) ← dedupeLoop1 edge nextEdge startVert endVert endProp (s.size + 1) current s
  let s ← if current = edge then (do
      let newVert : Int := s.nVert
      let s := { s with nVert := s.nVert + 1 }
      forVertSetVert newVert (nextI current) (s.size + 1) (nextI current) s)
    else pure s
  let pair ← s.getPair edge
  let c ← s.getPair (nextI pair)
  let current ← dedupeLoop2 s pair endVert (s.size + 1) c
  if current = pair then do
    let newVert : Int := s.nVert
    let s := { s with nVert := s.nVert + 1 }
    forVertSetVert newVert (nextI current) (s.size + 1) (nextI current) s
  else pure s

/-- `ForVert(i, …)` of `SplitPinchedVerts` (edge_op.cpp:1190-1199): marks every halfedge of the
orbit processed and, when `vert = some v`, relabels the orbit to `v` -/
def forVertMark (vert : Option Int) (h : Int) :
    Nat → Int → HE → Array Bool → M (HE × Array Bool)
  | 0, _, _, _ => .error .fuel
  | f + 1, current, s, done => do
    let p ← s.getPair current
    let current := nextI p
    let done ← wr done current true
    let s ← match vert with
      | some v => do
        let s ← s.setStart current v
        let p ← s.getPair current
        s.setEnd p v
      | none => pure s
    if current = h then pure (s, done) else forVertMark vert h f current s done

/-- the `for (i < nbEdges)` of the serial `SplitPinchedVerts` (edge_op.cpp:1183-1201) -/
def splitLoop : Nat → Int → HE → Array Bool → Array Bool → M HE
  | 0, _, s, _, _ => pure s
  | n + 1, i, s, vertProcessed, halfedgeProcessed => do
    let hp ← rd halfedgeProcessed i
    if hp then splitLoop n (i + 1) s vertProcessed halfedgeProcessed else
    let vert ← s.getStart i
    if vert = -1 then splitLoop n (i + 1) s vertProcessed halfedgeProcessed else
    let vp ← rd vertProcessed vert
    if vp then do
      let newVert : Int := s.nVert
      let s := { s with nVert := s.nVert + 1 }
      let (s, hpd) ← forVertMark (some newVert) i (s.size + 1) i s halfedgeProcessed
      splitLoop n (i + 1) s vertProcessed hpd
    else do
      let vertProcessed ← wr vertProcessed vert true
      let (s, hpd) ← forVertMark none i (s.size + 1) i s halfedgeProcessed
      splitLoop n (i + 1) s vertProcessed hpd

/-- `Impl::SplitPinchedVerts`, serial branch (edge_op.cpp:1181-1202) -/
def splitPinchedVerts (s : HE) : M HE :=
  splitLoop s.size 0 s (Array.replicate s.nVert false) (Array.replicate s.size false)

/-! ## the invariant, executable -/

/-- `CheckHalfedges::operator()(e)` (properties.cpp:75-92), Boolean, on the arrays -/
def goodB (start paired : Array Int) (e : Nat) : Bool :=
  let nx := MV.Halfedge.nextHalfedge
  let st := start[e]!
  let en := start[nx e]!
  let pr := paired[e]!
  if st == -1 && en == -1 && pr == -1 then true
  else if start[nx e]! == -1 || start[nx (nx e)]! == -1 then false
  else if pr < 0 || start.size ≤ pr.toNat then false
  else
    paired[pr.toNat]! == (e : Int) && st != en && st == start[nx pr.toNat]! && en == start[pr.toNat]!

/-- `Impl::IsManifold()` (properties.cpp:102-107) on the struct-of-arrays; linear time -/
def checkPairInv (start paired : Array Int) : Bool :=
  start.size == paired.size && start.size % 3 == 0 &&
    (List.range start.size).all (goodB start paired)

/-- iterate `ForVert`'s step `e ↦ NextHalfedge(Pair(e))` on in-range halfedges (total version
used by the orbit predicate; out-of-range values are fixed points) -/
def rotN (paired : Array Int) (e : Nat) : Nat :=
  let p := paired[e]!
  if p < 0 then e else MV.Halfedge.nextHalfedge p.toNat

/-- `e'` is reached from `e` by at most `k` steps of `rotN` -/
def reaches (paired : Array Int) : Nat → Nat → Nat → Bool
  | 0, e, e' => e == e'
  | k + 1, e, e' => e == e' || reaches paired k (rotN paired e) e'

/-- every two live halfedges with the same start vertex lie on one `ForVert` cycle
(no pinched vertex); quadratic, executable -/
def checkVertOrbit (start paired : Array Int) : Bool :=
  (List.range start.size).all fun e =>
    paired[e]! < 0 ||
    (List.range start.size).all fun e' =>
      paired[e']! < 0 || start[e]! != start[e']! || reaches paired start.size e e'

end MV.EdgeOp
