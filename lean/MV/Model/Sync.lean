/-
Synchronisation traces of the real library (property C06), core Lean only.

The hooked library (`verif::Sync`, /repo/src/verif_hooks.h, family `onSync`) emits one event
per lock / unlock / plain access of a lazily mutated field / `fetch_add` on the mesh-ID
counter.  The harness merges the per-thread buffers by a global sequence number, renames
every address to a fresh small number at each `alloc` (so a re-used address is a new
object), and hands the trace to the monitors defined here.

  C++                                                                    event
  ---------------------------------------------------------------------  ------------------
  std::lock_guard<std::mutex> lock(m)   (manifold.cpp:138,187,197;       acq t m 0
     csg_tree.cpp:98,104,118,128,152; cross_section.cpp:204,227,325,564)
  ConcurrentSharedPtr::SharedPtrGuard(mutex)  `mutex->lock()`            acq t m 1   (recursive)
     (utils.h:100-103; taken at csg_tree.cpp:573,594,647,765,893)
  std::scoped_lock lock(a, b)  (manifold.cpp:166; cross_section.cpp:212,235)
                                                                         acq t a 2, acq t b 2
  thread start / join (harness: std::thread ctor / join())               rel/acq on a token, mode 3
  ~lock_guard / ~scoped_lock / ~SharedPtrGuard  `mutex->unlock()`        rel t m
  read of pNode_, pImpl_, transform_, *impl_, cache_, paths_, tolerance_ rd t x g
  write of the same                                                      wr t x g
  meshIDCounter_.fetch_add(n) returned old (impl.cpp:86)                 fadd t old n

`x` names one (object, field) pair, `g` is 0 when the code takes no lock for that access and
`l + 1` when it relies on lock `l`.

Three monitors run on every real trace (all total, all decidable):
  * `hbAccept`   — vector-clock happens-before race detector;
  * `lsAccept`   — mutual exclusion of the mutexes, every access that claims a guard really
                   holds it, blocking acquisitions respect the lock ranks;
  * `idsAccept`  — the ID ranges handed out by `fetch_add` are pairwise disjoint.
-/
namespace MV.Sync

/-- association list with `Nat` keys; `set` drops older bindings of the key -/
abbrev AMap (β : Type) := List (Nat × β)

namespace AMap
variable {β : Type}

def get : AMap β → Nat → Option β
  | [], _ => none
  | (k', v) :: t, k => if k' = k then some v else get t k

def del : AMap β → Nat → AMap β
  | [], _ => []
  | (k', v) :: t, k => if k' = k then del t k else (k', v) :: del t k

def set (m : AMap β) (k : Nat) (v : β) : AMap β := (k, v) :: del m k

def getD (m : AMap β) (k : Nat) (d : β) : β := (get m k).getD d

end AMap

/-- One event of the trace. `t` is the thread. -/
inductive Ev where
  /-- lock `l` acquired. mode 0: `std::mutex` by `lock_guard` (blocking); 1: the recursive
  mutex of `ConcurrentSharedPtr` (blocking, re-entrant); 2: member of a `std::scoped_lock`
  over two mutexes (try-and-back-off); 3: a token (thread start / join), no exclusion;
  4: a `std::mutex` that cannot be contended (created by this thread inside its current critical
  section and never touched by another thread: the mutex of a local temporary). -/
  | acq (t l mode : Nat)
  | rel (t l : Nat)
  | rd (t x g : Nat)
  | wr (t x g : Nat)
  | fadd (t old n : Nat)
deriving DecidableEq, Repr, Inhabited

def Ev.tid : Ev → Nat
  | .acq t _ _ => t
  | .rel t _ => t
  | .rd t _ _ => t
  | .wr t _ _ => t
  | .fadd t _ _ => t

/-! ### Vector clocks.  Entry `u` of a clock is `1 +` the trace index of the latest event of
thread `u` that is known to happen before, `0` when none is known. -/

abbrev VC := List Nat

def vget (v : VC) (t : Nat) : Nat := v.getD t 0
def vtab (n : Nat) (f : Nat → Nat) : VC := (List.range n).map f
def vjoin (n : Nat) (a b : VC) : VC := vtab n fun t => max (vget a t) (vget b t)
def vset (n : Nat) (a : VC) (t c : Nat) : VC := vtab n fun u => if u = t then c else vget a u
def vle (n : Nat) (a b : VC) : Bool := (List.range n).all fun t => decide (vget a t ≤ vget b t)

/-- State of the happens-before monitor after `k` events. -/
structure HbSt where
  /-- index of the next event -/
  k : Nat := 0
  /-- per thread: what it knows -/
  C : AMap VC := []
  /-- per lock / token: join of the clocks of all releases so far -/
  L : AMap VC := []
  /-- per variable: entry `u` = 1 + index of the last write by thread `u` -/
  W : AMap VC := []
  /-- per variable: entry `u` = 1 + index of the last read by thread `u` -/
  R : AMap VC := []
deriving Repr

/-- The clock of thread `t` while it executes event number `k`. -/
def tick (n : Nat) (s : HbSt) (t : Nat) : VC := vset n (s.C.getD t []) t (s.k + 1)

/-- One step: `none` = race (or thread id out of range). `n` = number of threads. -/
def hbStep (n : Nat) (s : HbSt) (e : Ev) : Option HbSt :=
  if e.tid < n then
    let c := tick n s e.tid
    match e with
    | .acq t l _ =>
      let c' := vset n (vjoin n c (s.L.getD l [])) t (s.k + 1)
      some { s with k := s.k + 1, C := s.C.set t c' }
    | .rel t l =>
      some { s with k := s.k + 1, C := s.C.set t c, L := s.L.set l (vjoin n (s.L.getD l []) c) }
    | .rd t x _ =>
      if vle n (s.W.getD x []) c then
        some { s with k := s.k + 1, C := s.C.set t c, R := s.R.set x (vset n (s.R.getD x []) t (s.k + 1)) }
      else none
    | .wr t x _ =>
      if vle n (s.W.getD x []) c && vle n (s.R.getD x []) c then
        some { s with k := s.k + 1, C := s.C.set t c, W := s.W.set x (vset n (s.W.getD x []) t (s.k + 1)) }
      else none
    | .fadd t _ _ => some { s with k := s.k + 1, C := s.C.set t c }
  else none

def hbRun (n : Nat) : HbSt → List Ev → Option HbSt
  | s, [] => some s
  | s, e :: es => match hbStep n s e with
    | some s' => hbRun n s' es
    | none => none

/-- The happens-before monitor. -/
def hbAccept (n : Nat) (tr : List Ev) : Bool := (hbRun n {} tr).isSome

/-- Index of the first event at which the monitor stops (for the replay). -/
def hbFirstBad (n : Nat) : HbSt → List Ev → Option Nat
  | _, [] => none
  | s, e :: es => match hbStep n s e with
    | some s' => hbFirstBad n s' es
    | none => some s.k

/-! ### Lock discipline: exclusion, claimed guards, ranks. -/

/-- per lock: owner, depth (recursive re-entry), rank -/
abbrev Held := AMap (Nat × Nat × Nat)

/-- The locks currently held by thread `t` all have rank below `r`. -/
def ranksBelow (h : Held) (t r : Nat) : Bool :=
  h.all fun p => decide (p.2.1 ≠ t) || decide (p.2.2.2 < r)

/-- One step of the lock-discipline monitor; `rank l` is the rank of lock `l`
(`pNodeMutex_`/`pathsMutex_` 0, the op-node guard 1, `CsgLeafNode::mutex_` 2). -/
def lsStep (rank : Nat → Nat) (h : Held) (e : Ev) : Option Held :=
  match e with
  | .acq t l mode =>
    if mode = 3 then some h else
    match h.get l with
    | none =>
      -- a blocking acquisition needs every lock already held to be of lower rank
      if mode = 2 || mode = 4 || ranksBelow h t (rank l) then some (h.set l (t, 1, rank l)) else none
    | some (o, d, r) =>
      -- held: only the owner may re-enter, and only a recursive mutex
      if o = t && mode = 1 then some (h.set l (o, d + 1, r)) else none
  | .rel t l =>
    match h.get l with
    | none => some h          -- a token
    | some (o, d, r) =>
      if o = t then (if d ≤ 1 then some (h.del l) else some (h.set l (o, d - 1, r))) else none
  | .rd t _ g | .wr t _ g =>
    if g = 0 then some h else
    match h.get (g - 1) with
    | some (o, _, _) => if o = t then some h else none
    | none => none
  | .fadd _ _ _ => some h

def lsRun (rank : Nat → Nat) : Held → List Ev → Option Held
  | h, [] => some h
  | h, e :: es => match lsStep rank h e with
    | some h' => lsRun rank h' es
    | none => none

def lsAccept (rank : Nat → Nat) (tr : List Ev) : Bool := (lsRun rank [] tr).isSome

def lsFirstBad (rank : Nat → Nat) : Held → Nat → List Ev → Option Nat
  | _, _, [] => none
  | h, i, e :: es => match lsStep rank h e with
    | some h' => lsFirstBad rank h' (i + 1) es
    | none => some i

/-- Every access names a guard (`g ≠ 0`), the same one for every access to the variable. -/
def allGuarded (guard : Nat → Nat) (tr : List Ev) : Bool :=
  tr.all fun e => match e with
    | .rd _ x g | .wr _ x g => decide (g = guard x + 1)
    | _ => true

/-! ### ID reservation (`Manifold::Impl::ReserveIDs`, impl.cpp:85-87). -/

/-- `fetch_add(n)` on the counter: returns the old value. -/
def fetchAdd (c n : Nat) : Nat × Nat := (c, c + n)

/-- Run the reservations in schedule order from counter value `c`; returns the ranges. -/
def reserveAll : Nat → List Nat → List (Nat × Nat)
  | _, [] => []
  | c, n :: ns => (c, n) :: reserveAll (c + n) ns

/-- The ranges `[old, old + n)` of a list are pairwise disjoint. -/
def rangesDisjoint : List (Nat × Nat) → Bool
  | [] => true
  | (o, n) :: rs => (rs.all fun p => decide (o + n ≤ p.1) || decide (p.1 + p.2 ≤ o) || decide (n = 0) || decide (p.2 = 0))
      && rangesDisjoint rs

def faddRanges (tr : List Ev) : List (Nat × Nat) :=
  tr.filterMap fun e => match e with
    | .fadd _ o n => some (o, n)
    | _ => none

def idsAccept (tr : List Ev) : Bool := rangesDisjoint (faddRanges tr)

end MV.Sync
