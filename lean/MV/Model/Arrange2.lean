import MV.Model.Sweep2
/-!
The event / status machine of the 2-D sweep (`class SweepPass`, /repo/src/boolean2_sweep.cpp), both
modes.  Core Lean only.

Points are pairs of integers compared lexicographically.  The sweep itself uses a point only through
`==`, `LexLess`, comparisons of single coordinates and the floating-point kernels `YAtX`,
`la::cross`, `Intersect`; in a correspondence run the coordinates are the RANKS of the doubles (one
monotone renumbering per axis), which preserves every exact comparison, and the three
floating-point kernels are ORACLE arguments (`Oracle`): their value only decides a branch or is a
new point that is handed on unchanged.

Transliteration table (line numbers of the pinned boolean2_sweep.cpp)
  enum class Side                                   :78        `Side`
  struct SweepEdge                                  :165-170   `SEdge`
  SweepPass members events_/pending_/status_/out_/seqCounter_  :383-387  `St`
  LexMultiplicity                                   :203-205   `lexMult`
  PendingAdd                                        :207-222   `innerBump`, `pendBump`, `insertEv`, `pendingAdd`
  Classify                                          :224-241   `classify`   (oracle: sign of `YAtX(lo,hi,p.x) − p.y`)
  GradientRank / GradientLess                       :243-254   `gradientRank`, `gradientLess` (oracle: sign of the cross product)
  EmitBoundary (both modes)                         :259-273   `emitBoundary`
  SplitAt                                           :276-287   `splitAt`
  OnInterior                                        :67-76     `onInterior` (oracle: `YAtX(lo,hi,v.x) == v.y`)
  TestPair                                          :290-329   `testPair`   (oracle: lines 296-325, the crossing point or none)
  ProcessEvent                                      :335-379   `classes`, `loIdx`, `hiIdx`, `blockLoop`, `pendingEdges`, `insertStable`, `sortReinsert`, `prepare`,
                                                               `adjacencyTests`, `processEvent`
  Run (event loop)                                  :189-198   `runStates`, `run`
  Seed / CollectArrangement                         :182, 395-401  `seedAll`, `collectArrangement`
-/
namespace MV.Arr2
open MV.Sweep2

/-- `enum class Side : uint8_t { UNDER, OVER, ON, ENDS }` -/
inductive Side
  | under | over | on | ends
deriving DecidableEq, Repr, Inhabited

def Side.toNat : Side → Nat
  | .under => 0 | .over => 1 | .on => 2 | .ends => 3

/-- `struct SweepEdge { vec2 l, r; int64_t m; uint64_t seq; }` -/
structure SEdge where
  l : Pt
  r : Pt
  m : Int
  seq : Nat
deriving DecidableEq, Repr, Inhabited

/-- `enum class SweepMode { Arrangement, Winding }` -/
inductive Mode
  | arrangement | winding
deriving DecidableEq, Repr, Inhabited

/-- the floating-point kernels, as arbitrary functions of the points they are applied to -/
structure Oracle where
  /-- `ycmp lo hi p`: −1 when `YAtX(lo,hi,p.x) < p.y`, +1 when `>`, 0 when `==` (anything else: unordered) -/
  ycmp : Pt → Pt → Pt → Int
  /-- `crossSign al ar bl br`: sign of `la::cross(ar − al, br − bl)` (0 exactly when the product is `== 0`) -/
  crossSign : Pt → Pt → Pt → Pt → Int
  /-- `crossing al ar bl br`: lines 296-325 of `TestPair` on the edges `al→ar`, `bl→br`: `none` when it returns
      without a crossing, `some q` for the constructed point -/
  crossing : Pt → Pt → Pt → Pt → Option Pt

/-- `std::map<vec2, std::map<vec2,int64_t,LexLess>, LexLess> pending_`, entries in key order -/
abbrev Pending := List (Pt × List (Pt × Int))

structure St where
  /-- bottom to top -/
  status : List SEdge
  pending : Pending
  /-- `std::set<vec2, LexLess> events_`, ascending -/
  events : List Pt
  out : PolySet
  seq : Nat
  /-- the pairs `(a.seq, b.seq)` that got past the index guard of `TestPair`, in call order -/
  tested : List (Nat × Nat)
  /-- every crossing point constructed so far was lexicographically after the event being processed -/
  ahead : Bool
deriving Repr, Inhabited

def St.empty : St := ⟨[], [], [], [], 0, [], true⟩

/-- `kLexLess(e.l, e.r) ? e.m : -e.m` -/
def lexMult (e : SEdge) : Int := if lexLess e.l e.r then e.m else -e.m

/-! ## PendingAdd -/

/-- the inner map: `find`; `emplace`; `+= m`, `erase` on zero -/
def innerBump : List (Pt × Int) → Pt → Int → List (Pt × Int)
  | [], b, m => [(b, m)]
  | (b', v) :: rest, b, m =>
    if lexLess b b' then (b, m) :: (b', v) :: rest
    else if lexLess b' b then (b', v) :: innerBump rest b m
    else if v + m = 0 then rest else (b', v + m) :: rest

/-- `auto& inner = pending_[a]; … ; if (inner.empty()) pending_.erase(a);` -/
def pendBump : Pending → Pt → Pt → Int → Pending
  | [], a, b, m => [(a, [(b, m)])]
  | (a', inner) :: rest, a, b, m =>
    if lexLess a a' then (a, [(b, m)]) :: (a', inner) :: rest
    else if lexLess a' a then (a', inner) :: pendBump rest a b m
    else
      let inner' := innerBump inner b m
      if inner'.isEmpty then rest else (a', inner') :: rest

/-- `events_.insert(p)` -/
def insertEv : List Pt → Pt → List Pt
  | [], p => [p]
  | q :: rest, p =>
    if lexLess p q then p :: q :: rest
    else if lexLess q p then q :: insertEv rest p
    else q :: rest

/-- `void PendingAdd(vec2 a, vec2 b, int64_t m)` -/
def pendingAdd (st : St) (a b : Pt) (m : Int) : St :=
  if a = b ∨ m = 0 then st
  else
    let a' := if lexLess b a then b else a
    let b' := if lexLess b a then a else b
    let m' := if lexLess b a then -m else m
    { st with pending := pendBump st.pending a' b' m'
              events := insertEv (insertEv st.events a') b' }

def pendFind : Pending → Pt → Option (List (Pt × Int))
  | [], _ => none
  | (a, inner) :: rest, p => if a = p then some inner else pendFind rest p

def pendErase : Pending → Pt → Pending
  | [], _ => []
  | (a, inner) :: rest, p => if a = p then rest else (a, inner) :: pendErase rest p

def pendCount (pd : Pending) : Nat := (pd.map fun e => e.2.length).sum

/-! ## Classify, GradientLess -/

def lexLo (a b : Pt) : Pt := if lexLess a b then a else b
def lexHi (a b : Pt) : Pt := if lexLess a b then b else a

/-- `Side Classify(const SweepEdge& e, const vec2& p) const` -/
def classify (o : Oracle) (e : SEdge) (p : Pt) : Side :=
  if e.r = p then .ends
  else if e.l.1 = e.r.1 then
    if p.1 ≠ e.l.1 then .on
    else if e.l = p then (if e.r.2 > p.2 then .over else .under)
    else
      let ylo := min e.l.2 e.r.2
      let yhi := max e.l.2 e.r.2
      if yhi ≤ p.2 then .under else if ylo ≥ p.2 then .over else .on
  else
    let lo := lexLo e.l e.r
    let hi := lexHi e.l e.r
    if p.1 < lo.1 ∨ p.1 > hi.1 then (if p.1 < lo.1 then .over else .on)
    else
      let s := o.ycmp lo hi p
      if s = -1 then .under else if s = 1 then .over else .on

/-- `static int GradientRank(const SweepEdge& e)` -/
def gradientRank (e : SEdge) : Int :=
  if e.r.1 = e.l.1 then (if e.r.2 > e.l.2 then 1 else -1) else 0

/-- `static bool GradientLess(const SweepEdge& a, const SweepEdge& b)` -/
def gradientLess (o : Oracle) (a b : SEdge) : Bool :=
  let ra := gradientRank a
  let rb := gradientRank b
  if ra ≠ rb then decide (ra < rb)
  else if ra ≠ 0 then decide (a.seq < b.seq)
  else
    let c := o.crossSign a.l a.r b.l b.r
    if c ≠ 0 then decide (c > 0) else decide (a.seq < b.seq)

/-- the `≤` of the stable sort: `a` may stay before `b` -/
def gradLE (o : Oracle) (a b : SEdge) : Bool := !gradientLess o b a

/-! ## EmitBoundary -/

/-- `void EmitBoundary(from, to, m, below, above)` -/
def emitBoundary (mode : Mode) (rule : WindRule) (out : PolySet) (frm to : Pt) (m below above : Int) : PolySet :=
  if frm = to then out
  else match mode with
    | .arrangement => polySetAdd out frm to m
    | .winding =>
      match emitRaw rule (lexLess frm to) below above with
      | none => out
      | some s => polySetAdd out frm to s

/-! ## SplitAt, OnInterior, TestPair -/

/-- `void SplitAt(size_t idx, const vec2& q)` -/
def splitAt (st : St) (idx : Nat) (q : Pt) : St :=
  match st.status[idx]? with
  | none => st
  | some e =>
    if q = e.r then st
    else if q = e.l then pendingAdd { st with status := st.status.eraseIdx idx } q e.r e.m
    else
      let st1 := pendingAdd { st with status := st.status.set idx { e with r := q } } q e.r e.m
      { st1 with events := insertEv st1.events q }

/-- `bool OnInterior(const vec2& v, const vec2& a, const vec2& b)` -/
def onInterior (o : Oracle) (v a b : Pt) : Bool :=
  let lo := lexLo a b
  let hi := lexHi a b
  if v = lo ∨ v = hi then false
  else if lo.1 = hi.1 then decide (v.1 = lo.1 ∧ lo.2 < v.2 ∧ v.2 < hi.2)
  else if v.1 < lo.1 ∨ v.1 > hi.1 then false
  else o.ycmp lo hi v == 0

/-- `void TestPair(size_t i, size_t j)`; `p` is the event being processed (only read by the `ahead` flag) -/
def testPair (o : Oracle) (p : Pt) (st : St) (i j : Nat) : St :=
  if j ≥ st.status.length ∨ i ≥ j then st
  else
    match st.status[i]?, st.status[j]? with
    | some a, some b =>
      let st := { st with tested := st.tested ++ [(a.seq, b.seq)] }
      if a.l = b.l ∨ a.l = b.r ∨ a.r = b.l ∨ a.r = b.r then st
      else if onInterior o b.r a.l a.r then splitAt st i b.r
      else if onInterior o a.r b.l b.r then splitAt st j a.r
      else
        match o.crossing a.l a.r b.l b.r with
        | none => st
        | some q =>
          let st := { st with events := insertEv st.events q, ahead := st.ahead && lexLess p q }
          splitAt (splitAt st j q) i q  -- j first: index safety
    | _, _ => st

/-! ## ProcessEvent -/

/-- `for (i < n) cls[i] = Classify(status_[i], p);` -/
def classes (o : Oracle) (status : List SEdge) (p : Pt) : List Side := status.map (classify o · p)

/-- `while (lo < n && cls[lo] == Side::UNDER) lo++;` -/
def loIdx (cls : List Side) : Nat := (cls.takeWhile (· = .under)).length

/-- `hi = n; while (hi > lo && cls[hi - 1] == Side::OVER) hi--;` -/
def hiIdx (cls : List Side) : Nat :=
  loIdx cls + (((cls.drop (loIdx cls)).reverse.dropWhile (· = .over)).length)

/-- the loop over the block `[lo, hi)`: running winding `w`, `out_`, `reinsert`, `seqCounter_` -/
def blockLoop (mode : Mode) (rule : WindRule) (p : Pt) :
    List (SEdge × Side) → Int → PolySet → List SEdge → Nat → PolySet × List SEdge × Nat
  | [], _, out, re, seq => (out, re, seq)
  | (e, c) :: rest, w, out, re, seq =>
    let below := w
    let above := w + lexMult e
    if c = .ends then
      blockLoop mode rule p rest above (emitBoundary mode rule out e.l e.r e.m below above) re seq
    else
      let out' := if e.l ≠ p then emitBoundary mode rule out e.l p e.m below above else out
      blockLoop mode rule p rest above out' (re ++ [{ l := p, r := e.r, m := e.m, seq := seq }]) (seq + 1)

/-- `for (kv : pit->second) reinsert.push_back({p, kv.first, kv.second, seqCounter_++});` -/
def pendingEdges (p : Pt) : List (Pt × Int) → Nat → List SEdge
  | [], _ => []
  | (b, m) :: rest, seq => { l := p, r := b, m := m, seq := seq } :: pendingEdges p rest (seq + 1)

/-- insert `x` (which came before every element of the sorted `s` in the input) in front of the first element
    that is not strictly less than it -/
def insertStable (o : Oracle) (x : SEdge) : List SEdge → List SEdge
  | [] => [x]
  | y :: ys => if gradLE o x y then x :: y :: ys else y :: insertStable o x ys

/-- `std::stable_sort(reinsert.begin(), reinsert.end(), GradientLess)` as a stable insertion sort (every stable
    sort gives this result when the comparison is a strict weak order; the harness checks on every recorded block
    that it is) -/
def sortReinsert (o : Oracle) (re : List SEdge) : List SEdge := re.foldr (insertStable o) []

/-- the result of `ProcessEvent` up to and including `status_.insert(status_.begin() + lo, …)` -/
structure Prep where
  lo : Nat
  hi : Nat
  k : Nat
  removedAny : Bool
  cls : List Side
  mid : St
deriving Repr, Inhabited

def prepare (o : Oracle) (mode : Mode) (rule : WindRule) (st : St) (p : Pt) : Prep :=
  let cls := classes o st.status p
  let lo := loIdx cls
  let hi := hiIdx cls
  let w0 := ((st.status.take lo).map lexMult).sum
  let block := ((st.status.zip cls).drop lo).take (hi - lo)
  let r := blockLoop mode rule p block w0 st.out [] st.seq
  let pe := match pendFind st.pending p with
    | none => []
    | some inner => pendingEdges p inner r.2.2
  let re := sortReinsert o (r.2.1 ++ pe)
  { lo := lo, hi := hi, k := re.length, removedAny := decide (hi > lo), cls := cls
    mid := { st with status := st.status.take lo ++ re ++ st.status.drop hi
                     pending := pendErase st.pending p
                     out := r.1
                     seq := r.2.2 + pe.length } }

/-- the calls `TestPair(i, j)` issued at the end of `ProcessEvent` in arrangement mode, in order:
    `if (k > 0) { TestPair(lo+k-1, lo+k); if (lo > 0) TestPair(lo-1, lo); }
     else if (removedAny && lo > 0) TestPair(lo-1, lo);` -/
def adjacencyTests (lo k : Nat) (removedAny : Bool) : List (Nat × Nat) :=
  if k > 0 then (lo + k - 1, lo + k) :: (if lo > 0 then [(lo - 1, lo)] else [])
  else if removedAny && decide (lo > 0) then [(lo - 1, lo)] else []

/-- `void ProcessEvent(const vec2& p)` -/
def processEvent (o : Oracle) (mode : Mode) (rule : WindRule) (st : St) (p : Pt) : St :=
  let pr := prepare o mode rule st p
  match mode with
  | .arrangement =>
    (adjacencyTests pr.lo pr.k pr.removedAny).foldl (fun s ij => testPair o p s ij.1 ij.2) pr.mid
  | .winding => pr.mid

/-! ## Run -/

/-- `while (!events_.empty()) { p = *events_.begin(); events_.erase(events_.begin()); ProcessEvent(p); }`
    as the list of `(p, state before ProcessEvent(p), state after)`.  The fuel is supplied by the caller
    (for a replay: the number of events of the recorded run plus one); for an arbitrary crossing oracle
    the loop need not terminate. -/
def runStates (o : Oracle) (mode : Mode) (rule : WindRule) : Nat → St → List (Pt × St × St)
  | 0, _ => []
  | fuel + 1, st =>
    match st.events with
    | [] => []
    | p :: rest =>
      let st0 := { st with events := rest }
      let st1 := processEvent o mode rule st0 p
      (p, st0, st1) :: runStates o mode rule fuel st1

def finalState (st : St) (tr : List (Pt × St × St)) : St :=
  match tr.getLast? with
  | none => st
  | some x => x.2.2

def run (o : Oracle) (mode : Mode) (rule : WindRule) (fuel : Nat) (st : St) : St :=
  finalState st (runStates o mode rule fuel st)

/-- `Seed(a, b, m)` for every entry of the seeding PolySet2 -/
def seedAll (es : List DEdge) : St := es.foldl (fun st e => pendingAdd st e.1 e.2.1 e.2.2) St.empty

/-- `CollectArrangement`: seed, `Run()` (with the footnote-9 vertical merge) -/
def collectArrangement (o : Oracle) (rule : WindRule) (fuel : Nat) (es : List DEdge) : PolySet :=
  mergeVerticals1D (run o .arrangement rule fuel (seedAll es)).out

end MV.Arr2
