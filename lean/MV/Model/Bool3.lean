/-
Model for property C02 (Booleans compute the regularised set operation).  Core Lean only.

(a) inclusion arithmetic of `Boolean3::Result` (src/boolean_result.cpp:705-799), with the three
    integer constants per `OpType` taken from the GENERATED file `MV/Gen/Inclusion.lean`
    (tools/extract_inclusion.py reads them from the working tree on every run);
(b) an abstract arrangement of two closed surfaces P and Q: cells carrying integer winding
    numbers `(wP, wQ)`, oriented face pieces owned by P or Q across which exactly the owner's
    winding changes, the multiplicities with which `Result` keeps a piece, and the 1-D version
    (the crossings of a generic ray);
(c) the symbolically perturbed predicates and the kernel cascade
    `Shadows / Interpolate / Intersect` (src/shared.h:66-123) and
    `Shadow01 / Kernel11 / Kernel02 / Kernel12` (src/boolean3.cpp:31-280), written ONCE over the
    `Scalar` interface, line for line from the C++.  `Scalar Float` is the instance the driver
    runs (Lean's `Float` is the machine's IEEE-754 double; the harness compares outputs bit for
    bit); `MV/Props/C02.lean` instantiates the same definitions at an ordered field with an
    absorbing not-a-number to carry `shadows_antisymm`.
-/
import MV.Gen.Inclusion

namespace MV.Bool3

/-! ## (a) inclusion arithmetic -/

/-- `enum class OpType { Add, Subtract, Intersect }` (include/manifold/common.h) -/
inductive OpType where
  | add
  | subtract
  | intersect
deriving DecidableEq, Repr, Inhabited

def OpType.all : List OpType := [.add, .subtract, .intersect]

/-- `const int c1 = op == OpType::Intersect ? 0 : 1;` (generated) -/
def c1 : OpType → Int
  | .add => MV.Gen.Inclusion.c1Add
  | .subtract => MV.Gen.Inclusion.c1Subtract
  | .intersect => MV.Gen.Inclusion.c1Intersect

/-- `const int c2 = op == OpType::Add ? 1 : 0;` (generated) -/
def c2 : OpType → Int
  | .add => MV.Gen.Inclusion.c2Add
  | .subtract => MV.Gen.Inclusion.c2Subtract
  | .intersect => MV.Gen.Inclusion.c2Intersect

/-- `const int c3 = op == OpType::Intersect ? 1 : -1;` (generated) -/
def c3 : OpType → Int
  | .add => MV.Gen.Inclusion.c3Add
  | .subtract => MV.Gen.Inclusion.c3Subtract
  | .intersect => MV.Gen.Inclusion.c3Intersect

/-- the winding number the result is meant to have in a cell where P winds `wP` times and Q
`wQ` times -/
def incl (op : OpType) (wP wQ : Int) : Int := c1 op * wP + c2 op * wQ + c3 op * wP * wQ

/-- `i03 = c1 + c3 * w03` (l.796): multiplicity with which a vertex / whole edge / face piece of
P is kept, `w03` being the winding number of Q at that place -/
def keepP (op : OpType) (wQ : Int) : Int := c1 op + c3 op * wQ

/-- `i30 = c2 + c3 * w30` (l.798): the same for pieces of Q -/
def keepQ (op : OpType) (wP : Int) : Int := c2 op + c3 op * wP

/-- `i12 = c3 * x12`, `i21 = c3 * x21` (l.792-795): multiplicity of a new vertex; `x12` is the
signed crossing number of the P-edge through the Q-face, i.e. the jump of `wQ` along the edge -/
def keepNew (op : OpType) (x : Int) : Int := c3 op * x

/-- `struct AbsSum { int operator()(int a, int b) { return abs(a) + abs(b); } }` (l.50) -/
def absSum (a b : Int) : Int := (a.natAbs : Int) + (b.natAbs : Int)

/-- the Boolean set formula the three operations stand for -/
def setOp : OpType → Bool → Bool → Bool
  | .add, a, b => a || b
  | .subtract, a, b => a && !b
  | .intersect, a, b => a && b

def b2i (b : Bool) : Int := if b then 1 else 0

/-! ## (b) abstract arrangement -/

inductive Owner where
  | P
  | Q
deriving DecidableEq, Repr, Inhabited

/-- An oriented face piece of the arrangement of the two surfaces: it separates cell `src` from
cell `dst`; going from `src` to `dst` the OWNER's winding number changes by `sign` (±1 for an
embedded piece; the theorems hold for any integer), the other operand's does not change. -/
structure Piece where
  owner : Owner
  sign : Int
  src : Nat
  dst : Nat
deriving DecidableEq, Repr, Inhabited

/-- cells `0 … ` with their two winding numbers, and the pieces between adjacent cells.  This
is the n-dimensional statement "for every pair of adjacent cells": `pieces` is the adjacency
relation of the cell complex cut out by the two surfaces. -/
structure Arrangement where
  wP : Nat → Int
  wQ : Nat → Int
  pieces : List Piece

/-- across a piece exactly the owner's winding changes, by `sign` -/
def Piece.Ok (A : Arrangement) (p : Piece) : Prop :=
  match p.owner with
  | .P => A.wP p.dst = A.wP p.src + p.sign ∧ A.wQ p.dst = A.wQ p.src
  | .Q => A.wQ p.dst = A.wQ p.src + p.sign ∧ A.wP p.dst = A.wP p.src

def Arrangement.WF (A : Arrangement) : Prop := ∀ p ∈ A.pieces, p.Ok A

/-- multiplicity with which `Boolean3::Result` keeps the piece: `c1 + c3·wQ` evaluated on the
Q-winding at the piece (constant across a P-piece), resp. `c2 + c3·wP` -/
def Piece.keep (op : OpType) (A : Arrangement) (p : Piece) : Int :=
  match p.owner with
  | .P => keepP op (A.wQ p.src)
  | .Q => keepQ op (A.wP p.src)

/-- `w` is a winding function of the kept surface: crossing a piece changes it by the piece's
orientation times its kept multiplicity -/
def IsWindingOfKept (op : OpType) (A : Arrangement) (w : Nat → Int) : Prop :=
  ∀ p ∈ A.pieces, w p.dst = w p.src + p.sign * p.keep op A

/-- cells joined to `c0` by a chain of pieces (crossed in either direction) -/
inductive Reach (A : Arrangement) (c0 : Nat) : Nat → Prop where
  | base : Reach A c0 c0
  | fwd {p : Piece} : p ∈ A.pieces → Reach A c0 p.src → Reach A c0 p.dst
  | bwd {p : Piece} : p ∈ A.pieces → Reach A c0 p.dst → Reach A c0 p.src

/-! ### the 1-D version: crossings of a generic ray, from infinity inwards -/

structure Crossing where
  owner : Owner
  sign : Int
deriving DecidableEq, Repr, Inhabited

/-- state while walking along the ray: winding of P, of Q, and of the kept surface -/
structure RayState where
  wP : Int
  wQ : Int
  wR : Int
deriving DecidableEq, Repr, Inhabited

def rayStep (op : OpType) (s : RayState) (c : Crossing) : RayState :=
  match c.owner with
  | .P => ⟨s.wP + c.sign, s.wQ, s.wR + c.sign * keepP op s.wQ⟩
  | .Q => ⟨s.wP, s.wQ + c.sign, s.wR + c.sign * keepQ op s.wP⟩

/-- walk from infinity (all windings 0) through the crossings -/
def rayRun (op : OpType) (cs : List Crossing) : RayState := cs.foldl (rayStep op) ⟨0, 0, 0⟩

/-! ## (c) predicates and kernels over `Scalar` -/

/-- what the kernels need from `double`: field operations and Boolean comparisons.
`beq` is C++ `==`, `lt` is `<`; `isFinite` is `std::isfinite`. -/
class Scalar (α : Type) where
  zero : α
  add : α → α → α
  sub : α → α → α
  mul : α → α → α
  div : α → α → α
  neg : α → α
  abs : α → α
  lt : α → α → Bool
  beq : α → α → Bool
  isFinite : α → Bool

instance : Scalar Float where
  zero := 0.0
  add a b := a + b
  sub a b := a - b
  mul a b := a * b
  div a b := a / b
  neg a := -a
  abs a := a.abs
  lt a b := decide (a < b)
  beq a b := a == b
  isFinite a := a.isFinite

structure V2 (α : Type) where
  x : α
  y : α

structure V3 (α : Type) where
  x : α
  y : α
  z : α

structure V4 (α : Type) where
  x : α
  y : α
  z : α
  w : α

section Kernels
variable {α : Type} [Scalar α]
open Scalar

local infixl:65 " +. " => Scalar.add
local infixl:65 " -. " => Scalar.sub
local infixl:70 " *. " => Scalar.mul
local infixl:70 " /. " => Scalar.div

def V3.zero : V3 α := ⟨Scalar.zero, Scalar.zero, Scalar.zero⟩
instance : Inhabited (V3 α) := ⟨V3.zero⟩

def V3.sub (a b : V3 α) : V3 α := ⟨a.x -. b.x, a.y -. b.y, a.z -. b.z⟩

/-- `withSign(pos, v) = pos ? v : -v` (shared.h:66) -/
def withSign (pos : Bool) (v : α) : α := if pos then v else neg v

/-- `Interpolate(aL, aR, x)` (shared.h:73-87) -/
def interpolate (aL aR : V3 α) (x : α) : V2 α :=
  let dxL := x -. aL.x
  let dxR := x -. aR.x
  let useL := lt (abs dxL) (abs dxR)
  let dLR := V3.sub aR aL
  let lambda := (if useL then dxL else dxR) /. dLR.x
  if !isFinite lambda || !isFinite dLR.y || !isFinite dLR.z then ⟨aL.y, aL.z⟩
  else
    ⟨lambda *. dLR.y +. (if useL then aL.y else aR.y),
     lambda *. dLR.z +. (if useL then aL.z else aR.z)⟩

/-- `Intersect(aL, aR, bL, bR)` (shared.h:94-114) -/
def intersect (aL aR bL bR : V3 α) : V4 α :=
  let dyL := bL.y -. aL.y
  let dyR := bR.y -. aR.y
  let useL := lt (abs dyL) (abs dyR)
  let dx := aR.x -. aL.x
  let lambda0 := (if useL then dyL else dyR) /. (dyL -. dyR)
  let lambda := if !isFinite lambda0 then Scalar.zero else lambda0
  let x := lambda *. dx +. (if useL then aL.x else aR.x)
  let aDy := aR.y -. aL.y
  let bDy := bR.y -. bL.y
  let useA := lt (abs aDy) (abs bDy)
  let y := lambda *. (if useA then aDy else bDy) +.
    (if useL then (if useA then aL.y else bL.y) else (if useA then aR.y else bR.y))
  let z := lambda *. (aR.z -. aL.z) +. (if useL then aL.z else aR.z)
  let w := lambda *. (bR.z -. bL.z) +. (if useL then bL.z else bR.z)
  ⟨x, y, z, w⟩

/-- `Shadows(p, q, dir) = p == q ? dir < 0 : p < q` (shared.h:121-123) -/
def shadows (p q dir : α) : Bool := if beq p q then lt dir Scalar.zero else lt p q

/-- the part of `Manifold::Impl` the kernels read -/
structure KMesh (α : Type) where
  vertPos : Array (V3 α)
  vertNormal : Array (V3 α)
  faceNormal : Array (V3 α)
  start : Array Nat
  pair : Array Nat

def KMesh.pos (m : KMesh α) (v : Nat) : V3 α := m.vertPos.getD v V3.zero
def KMesh.vnorm (m : KMesh α) (v : Nat) : V3 α := m.vertNormal.getD v V3.zero
def KMesh.fnorm (m : KMesh α) (f : Nat) : V3 α := m.faceNormal.getD f V3.zero
/-- `Halfedges::Start` -/
def KMesh.startOf (m : KMesh α) (h : Nat) : Nat := m.start.getD h 0
/-- `NextHalfedge(h)`: `h + 1`, minus 3 when that leaves the triangle -/
def nextHalfedge (h : Nat) : Nat := if (h + 1) % 3 == 0 then h + 1 - 3 else h + 1
/-- `Halfedges::End(h) = start_[NextHalfedge(h)]` -/
def KMesh.endOf (m : KMesh α) (h : Nat) : Nat := m.start.getD (nextHalfedge h) 0
def KMesh.pairOf (m : KMesh α) (h : Nat) : Nat := m.pair.getD h 0

/-- every index stored in the mesh is in range (checked by the driver before running) -/
def KMesh.valid (m : KMesh α) : Bool :=
  m.vertNormal.size == m.vertPos.size && m.start.size == 3 * m.faceNormal.size &&
  m.pair.size == m.start.size &&
  m.start.all (· < m.vertPos.size) && m.pair.all (· < m.start.size)

/-- `struct FaceEdge { int edge, start, end; bool isForward; }` (boolean3.cpp:31) -/
structure FaceEdge where
  edge : Nat
  start : Nat
  stop : Nat
  isForward : Bool
deriving Repr, Inhabited

/-- `LoadFaceEdges` (boolean3.cpp:38-51) -/
def loadFaceEdges (m : KMesh α) (tri : Nat) : List FaceEdge :=
  [0, 1, 2].map fun i =>
    let halfedge := 3 * tri + i
    let start := m.startOf halfedge
    let stop := m.startOf (3 * tri + (i + 1) % 3)
    if start < stop then ⟨halfedge, start, stop, true⟩
    else ⟨m.pairOf halfedge, stop, start, false⟩

/-- `Shadow01<expandP, forward>(a0, b1, b1s, b1e, inA, inB)` (boolean3.cpp:53-85).
The C++ `vec2 yz01(NAN)` ("these do not overlap") is `none`. -/
def shadow01 (expandP forward : Bool) (a0 b1 b1s b1e : Nat) (inA inB : KMesh α) :
    Int × Option (V2 α) :=
  let a0x := (inA.pos a0).x
  let b1sx := (inB.pos b1s).x
  let b1ex := (inB.pos b1e).x
  let a0xp := (inA.vnorm a0).x
  let b1sxp := (inB.vnorm b1s).x
  let b1exp := (inB.vnorm b1e).x
  let s01 : Int :=
    if forward then
      b2i (shadows a0x b1ex (withSign expandP a0xp -. b1exp)) -
        b2i (shadows a0x b1sx (withSign expandP a0xp -. b1sxp))
    else
      b2i (shadows b1sx a0x (withSign expandP b1sxp -. a0xp)) -
        b2i (shadows b1ex a0x (withSign expandP b1exp -. a0xp))
  if s01 != 0 then
    let yz01 := interpolate (inB.pos b1s) (inB.pos b1e) (inA.pos a0).x
    let b1pair := inB.pairOf b1
    let dir := (inB.fnorm (b1 / 3)).y +. (inB.fnorm (b1pair / 3)).y
    let keep :=
      if forward then shadows (inA.pos a0).y yz01.x (neg dir)
      else shadows yz01.x (inA.pos a0).y (withSign expandP dir)
    (if keep then s01 else 0, some yz01)
  else (0, none)

/-- `std::isfinite(yz[0])` on a value that is NaN exactly when the model has `none` -/
def finite2 (r : Option (V2 α)) : Option (V2 α) :=
  match r with
  | some v => if isFinite v.x then some v else none
  | none => none

/-- running state of the "left/right" bookkeeping shared by the three kernels:
`k`, `shadows`, and the two pairs of points collected so far -/
structure LR (α : Type) where
  s : Int
  k : Nat
  sh : Bool
  a0 : V3 α
  a1 : V3 α
  b0 : V3 α
  b1 : V3 α

def LR.init : LR α := ⟨0, 0, false, V3.zero, V3.zero, V3.zero, V3.zero⟩

/-- `if (k < 2 && (k == 0 || (s != 0) != shadows)) { shadows = s != 0; A[k] = a; B[k] = b; ++k; }` -/
def LR.push (st : LR α) (s : Int) (a b : V3 α) : LR α :=
  if st.k < 2 && (st.k == 0 || ((s != 0) != st.sh)) then
    if st.k == 0 then { st with sh := s != 0, a0 := a, b0 := b, k := 1 }
    else { st with sh := s != 0, a1 := a, b1 := b, k := 2 }
  else st

/-- `Kernel11<expandP>::operator()(p1, p1s, p1e, q1, q1s, q1e)` (boolean3.cpp:92-155).
Returns `s11`, `xyzz11` (`none` = `vec4(NAN)`), and `k` (the C++ reads `pRL[1]`, `qRL[1]`
uninitialised when `s11 ≠ 0 ∧ k < 2`; DEBUG_ASSERT only). -/
def kernel11 (expandP : Bool) (p1 p1s p1e q1 q1s q1e : Nat) (inP inQ : KMesh α) :
    Int × Option (V4 α) × Nat :=
  -- a := pRL, b := qRL
  let st1 := [(p1s, 0), (p1e, 1)].foldl (init := (LR.init : LR α)) fun st (v, i) =>
    let r := shadow01 expandP true v q1 q1s q1e inP inQ
    match finite2 r.2 with
    | some yz01 =>
      let st := { st with s := st.s + r.1 * (if i == 0 then -1 else 1) }
      let pk := inP.pos v
      st.push r.1 pk ⟨pk.x, yz01.x, yz01.y⟩
    | none => st
  let st2 := [(q1s, 0), (q1e, 1)].foldl (init := st1) fun st (v, i) =>
    let r := shadow01 expandP false v p1 p1s p1e inQ inP
    match finite2 r.2 with
    | some yz10 =>
      let st := { st with s := st.s + r.1 * (if i == 0 then -1 else 1) }
      let qk := inQ.pos v
      st.push r.1 ⟨qk.x, yz10.x, yz10.y⟩ qk
    | none => st
  if st2.s == 0 then (0, none, st2.k)
  else
    let xyzz11 := intersect st2.a0 st2.a1 st2.b0 st2.b1
    let p1pair := inP.pairOf p1
    let dirP := (inP.fnorm (p1 / 3)).z +. (inP.fnorm (p1pair / 3)).z
    let q1pair := inQ.pairOf q1
    let dirQ := (inQ.fnorm (q1 / 3)).z +. (inQ.fnorm (q1pair / 3)).z
    let s11 := if shadows xyzz11.z xyzz11.w (withSign expandP dirP -. dirQ) then st2.s else 0
    (s11, some xyzz11, st2.k)

/-- `Kernel02<expandP, forward>::operator()(a0, b2, edgeB)` (boolean3.cpp:163-207).
`z02 = NAN` is `none`. -/
def kernel02 (expandP forward : Bool) (a0 b2 : Nat) (edgeB : List FaceEdge) (inA inB : KMesh α) :
    Int × Option α × Nat :=
  let st := edgeB.foldl (init := (LR.init : LR α)) fun st e =>
    let r := shadow01 expandP forward a0 e.edge e.start e.stop inA inB
    match finite2 r.2 with
    | some yz01 =>
      let st := { st with s := st.s + r.1 * (if forward == e.isForward then -1 else 1) }
      st.push r.1 ⟨yz01.x, yz01.y, yz01.y⟩ V3.zero
    | none => st
  if st.s == 0 then (0, none, st.k)
  else
    let vertPosA := inA.pos a0
    let z02 := (interpolate st.a0 st.a1 vertPosA.y).y
    let keep :=
      if forward then shadows vertPosA.z z02 (neg (inB.fnorm b2).z)
      else shadows z02 vertPosA.z (withSign expandP (inB.fnorm b2).z)
    (if keep then st.s else 0, some z02, st.k)

/-- `std::isfinite(z)` on the scalar result of `kernel02` -/
def finite1 (r : Option α) : Option α :=
  match r with
  | some v => if isFinite v then some v else none
  | none => none

def finite4 (r : Option (V4 α)) : Option (V4 α) :=
  match r with
  | some v => if isFinite v.x then some v else none
  | none => none

/-- `Kernel12<expandP, forward>::operator()(a1, b2)` (boolean3.cpp:216-280).
`inA` carries the edge, `inB` the face; `Kernel11` is always called as (edge of P, edge of Q),
P being `inA` when `forward` and `inB` otherwise (`Intersect12_`, l.345-352). -/
def kernel12 (expandP forward : Bool) (a1 b2 : Nat) (inA inB : KMesh α) :
    Int × Option (V3 α) × Nat :=
  let edgeAStart := inA.startOf a1
  let edgeAEnd := inA.endOf a1
  let edgeB := loadFaceEdges inB b2
  -- a := xzyLR0, b := xzyLR1
  let st1 := [edgeAStart, edgeAEnd].foldl (init := (LR.init : LR α)) fun st vertA =>
    let r := kernel02 expandP forward vertA b2 edgeB inA inB
    match finite1 r.2.1 with
    | some z =>
      let st := { st with s := st.s + r.1 * (if (vertA == edgeAStart) == forward then 1 else -1) }
      let p := inA.pos vertA
      let l0 : V3 α := ⟨p.x, p.z, p.y⟩          -- std::swap(xzyLR0[k].y, xzyLR0[k].z)
      st.push r.1 l0 ⟨l0.x, z, l0.z⟩
    | none => st
  let st2 := edgeB.foldl (init := st1) fun st e =>
    let r :=
      if forward then kernel11 expandP a1 edgeAStart edgeAEnd e.edge e.start e.stop inA inB
      else kernel11 expandP e.edge e.start e.stop a1 edgeAStart edgeAEnd inB inA
    match finite4 r.2.1 with
    | some xyzz =>
      let st := { st with s := st.s - r.1 * (if e.isForward then 1 else -1) }
      let l0 : V3 α := ⟨xyzz.x, xyzz.z, xyzz.y⟩
      let l1 : V3 α := ⟨xyzz.x, xyzz.w, xyzz.y⟩
      if forward then st.push r.1 l0 l1 else st.push r.1 l1 l0   -- if (!forward) swap the [1] entries
    | none => st
  if st2.s == 0 then (0, none, st2.k)
  else
    let xzyy := intersect st2.a0 st2.a1 st2.b0 st2.b1
    (st2.s, some ⟨xzyy.x, xzyy.z, xzyy.y⟩, st2.k)

end Kernels

end MV.Bool3
