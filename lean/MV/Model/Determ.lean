/-
C04 — models of the schedule-sensitive sites of the library, each reduced to "an arbitrary
schedule-dependent arrangement of the same multiset, followed by a normaliser".  Core only.

  collectThenSort   Kernel12Recorder / AddNewEdgeVerts / EdgePos: per-worker lists concatenated in
                    ANY order, then `stable_sort` by a key        (boolean3.cpp:360-375,
                    boolean_result.cpp:191-202)
  flagStore         FlagStore::run_par: per-worker index lists, concatenated, sorted
                    (edge_op.cpp)
  atomicCounters    AtomicAdd(counter[k], 1) in any order: final counters (SizeOutput,
                    CreateHalfedges bucket sizes, BuildInternalBoxes arrivals)
  slotCursor        AtomicAdd slot cursors (facePtr, vertIndex): each item gets a distinct slot
                    of its bucket; which one depends on the schedule
  heapOrder         BatchBoolean: pop order of a (size, serial) heap
-/
import MV.Model.Par
namespace MV.Determ
open MV.Par

variable {α : Type}

/-- per-worker partial results are concatenated in an arbitrary order and sorted -/
def collectThenSort (lt : α → α → Bool) (perWorker : List (List α)) : List α :=
  stableSort lt perWorker.flatten

/-- FlagStore::run_par: flagged indices, gathered per worker in any order, then sorted -/
def flagStore (perWorker : List (List Nat)) : List Nat :=
  stableSort (fun a b => decide (a < b)) perWorker.flatten

/-- sequential FlagStore: ascending filter -/
def flagSeq (n : Nat) (flag : Nat → Bool) : List Nat := (List.range n).filter flag

/-- integer atomic counters: a list of increments `(index, delta)` applied in order -/
def atomicCounters (n : Nat) (incs : List (Nat × Int)) : List Int :=
  incs.foldl (fun c i => c.set i.1 (c.getD i.1 0 + i.2)) (List.replicate n 0)

/-- the value counter `k` must end with, whatever the order -/
def counterSpec (incs : List (Nat × Int)) (k : Nat) : Int :=
  ((incs.filter fun i => i.1 == k).map Prod.snd).sum

/-- BatchBoolean heap: elements are (vertex count, serial); the comparator orders by size
then serial, so the pop order is the sorted order of the pairs -/
def heapPopOrder (xs : List (Nat × Nat)) : List (Nat × Nat) :=
  stableSort (fun a b => decide (a.1 < b.1 ∨ (a.1 = b.1 ∧ a.2 < b.2))) xs

end MV.Determ
