import MV.Model.Mesh
/-
Transliteration of `Manifold::Impl::CreateHalfedges` (/repo/src/impl.cpp:323-560) for the
call shape `CreateHalfedges(triVerts)` (second argument empty: `triProp` IS `triVert`, so
`propVert = startVert`), of `CheckHalfedges` / `IsManifold` / `Is2Manifold`
(/repo/src/properties.cpp:72-131) and of `NextHalfedge` (/repo/src/shared.h:33-36).
Core Lean only; executable; linked into `mvdriver`.

What is modelled
* impl.cpp:347-359  `PrepHalfedges<true>`  -> `prep`
* impl.cpp:378-398  the sorted-key path (vertCount < 2^18): `edgeKey`, `sortIds`.
  `std::stable_sort(ids, edge[a] < edge[b])` has a unique result (sorted by key, ties in
  increasing halfedge index); `List.mergeSort` with `≤` on the keys is stable, hence computes
  the same array.
* impl.cpp:399-441  the bucketed path (vertCount ≥ 2^18) is NOT modelled.  Reading it: bucket
  `min(v0,v1) + (v0 > v1 ? 0 : vertCount)`, inside a bucket `std::sort` by `(largeVert, tri)`.
  So the resulting order is by (direction, min, max, tri).  The sorted-key path orders by
  (direction, min, max, halfedge index 3*tri+i).  For a NON-DEGENERATE triangle list the two
  orders are IDENTICAL (not merely equivalent): two halfedges with the same directed edge lie in
  different triangles (a triangle that contains the same directed edge twice repeats a vertex),
  so comparing `tri` and comparing `3*tri+i` agree, and `(largeVert, tri)` is a strict total
  order inside a bucket, so the unstable `std::sort` and the racy `AtomicAdd` placement cannot
  show.  For a degenerate edge `v0 == v1` the paths DIFFER: the key path files it under
  direction bit 0 (`v0 < v1` is false: "backward"), the bucket path under offset `vertCount`
  (`v0 > v1` is false: "forward").  The bucket path also indexes `offsets[min + offset]`
  unchecked, i.e. needs every index `< vertCount`.
* impl.cpp:446-495  `body(i, consecutiveStart, segmentEnd)` including the in-place reordering
  loop of `ids` -> `search`, `reorder` (`stepA`, `stepB`, `outer`), `body`.
* impl.cpp:522-526  the serial `#else` loop -> `serialLoop`.  The `MANIFOLD_PAR` branch
  (impl.cpp:497-521) cuts `[0,numEdge)` into ranges, extending each cut while
  `duplicated(end-1,end)`, i.e. a range never splits a run of equal directed edges; it then runs
  the very same `body` with `consecutiveStart = start`, `segmentEnd = end` per range.  `body`
  only touches `ids[consecutiveStart+numEdge .. segmentEnd+numEdge)` and `removed` at halfedges
  of its own runs, so (for balanced input, where run j of the backward half faces run j of the
  forward half) the ranges are independent and the result equals the serial one.  Not modelled.
* impl.cpp:528-549  the final pairing -> `finish`.  It is a parallel `for_each_n`; for balanced
  input `ids` is a permutation, the writes are disjoint, and the sequential fold below is the
  same function.  `halfedge_.resize_nofill` leaves unwritten slots uninitialised; the model
  fills with 0 (for balanced input every slot is written).

Every C++ array read `x[k]` is `rd x k`, which fails with `HErr.oob` when `k` is out of range
(negative or `≥ size`); every write is `wr`.  `while (1)` loops take fuel and fail with
`HErr.fuel`.  The theorems state that neither happens under the precondition of the call
(forward and backward halfedge counts equal, `numEdge = numHalfedge / 2`).

Integers: vertex indices are C++ `int ≥ 0`, here `Nat`.  `static_cast<uint64_t>(min) << 32`
loses nothing for `int`; the model uses unbounded `Nat` shifts, which agrees for indices
`< 2^31`.
-/
namespace MV.Halfedge
open MV.Mesh

/-- `struct CreateHalfedge { int startVert, endVert, propVert; }` -/
structure CH where
  startVert : Nat
  endVert : Nat
  propVert : Nat
deriving Repr, DecidableEq, Inhabited

/-- `NextHalfedge` (shared.h:33) -/
def nextHalfedge (e : Nat) : Nat := if e % 3 = 2 then e - 2 else e + 1

/-- `PrepHalfedges<true>` : `halfedges[3*tri+i] = {props[i], props[Next3(i)], props[i]}` -/
def prepTri (t : Tri) : List CH :=
  [⟨t.1, t.2.1, t.1⟩, ⟨t.2.1, t.2.2, t.2.1⟩, ⟨t.2.2, t.1, t.2.2⟩]

def prep (triVert : List Tri) : Array CH := (triVert.flatMap prepTri).toArray

/-- impl.cpp:382-384 -/
def edgeKey (v0 v1 : Nat) : Nat :=
  (if v0 < v1 then 1 else 0) <<< 63 ||| (min v0 v1) <<< 32 ||| max v0 v1

/-- impl.cpp:395-398: `sequence(ids); stable_sort(ids, edge[a] < edge[b])` -/
def sortIds (he : Array CH) : Array Nat :=
  let key : Array Nat := he.map fun h => edgeKey h.startVert h.endVert
  ((List.range he.size).mergeSort fun a b => decide (key.getD a 0 ≤ key.getD b 0)).toArray

inductive HErr where
  | oob   -- an array access outside its bounds (undefined behaviour in the C++)
  | fuel  -- a `while (1)` loop did not terminate within the fuel given by the entry point
deriving Repr, DecidableEq, Inhabited

/-- checked read `x[k]`, `k` a C++ `int` -/
def rd {α : Type} (x : Array α) (k : Int) : Except HErr α :=
  if k < 0 then .error .oob else
  match x[k.toNat]? with
  | some v => .ok v
  | none => .error .oob

/-- checked write `x[k] = v` -/
def wr {α : Type} (x : Array α) (k : Int) (v : α) : Except HErr (Array α) :=
  if k < 0 then .error .oob else
  if k.toNat < x.size then .ok (x.setIfInBounds k.toNat v) else .error .oob

/-- the mutable state of the `body` loop: `Vec<int> ids`, `Vec<unsigned char> removed` -/
structure St where
  ids : Array Nat
  removed : Array Bool
deriving Repr, DecidableEq, Inhabited

section reorder
/- impl.cpp:461-484.  `tgt = i + numEdge`, `dir = tgt < k ? 1 : -1`. -/
variable (removed : Array Bool) (tgt k : Int) (dir : Int)

/-- `inRange` lambda (impl.cpp:470-472) -/
def inRangeA (a : Int) : Bool := if dir > 0 then decide (a ≥ tgt) else decide (a ≤ tgt)

/-- `isRemoved` lambda (impl.cpp:469): `removed[ids[x]]` -/
def isRemoved (ids : Array Nat) (x : Int) : Except HErr Bool := do
  let e ← rd ids x
  rd removed e

/-- `do { a -= dir; } while (inRange() && isRemoved(a));` returns the final `a` -/
def stepA (ids : Array Nat) : Nat → Int → Except HErr Int
  | 0, _ => .error .fuel
  | f + 1, a => do
    let a' := a - dir
    if inRangeA tgt dir a' then
      if (← isRemoved removed ids a') then stepA ids f a' else pure a'
    else pure a'

/-- `do { b -= dir; } while (isRemoved(b) && b != k);` returns the final `b` -/
def stepB (ids : Array Nat) : Nat → Int → Except HErr Int
  | 0, _ => .error .fuel
  | f + 1, b => do
    let b' := b - dir
    if (← isRemoved removed ids b') && b' != k then stepB ids f b' else pure b'

/-- the outer `while (1)` of impl.cpp:473-482 -/
def outer (fuelIn : Nat) : Nat → Int → Int → Array Nat → Except HErr (Array Nat)
  | 0, _, _, _ => .error .fuel
  | f + 1, a, b, ids => do
    let a' ← stepA removed tgt dir ids fuelIn a
    if !inRangeA tgt dir a' then pure ids else
    let b' ← stepB removed k dir ids fuelIn b
    let x ← rd ids a'
    let ids' ← wr ids b' x
    outer fuelIn f a' b' ids'
end reorder

/-- impl.cpp:466-483: shift the not-removed entries of `ids` between position `i+numEdge` and
`k` by one place (removed entries stay in place) and put `pair1` at `i+numEdge`. -/
def reorder (numEdge i k pair1 : Nat) (s : St) : Except HErr St := do
  let tgt : Int := (i : Int) + numEdge
  let dir : Int := if tgt < (k : Int) then 1 else -1
  let fuel := s.ids.size + 2
  let ids ← outer s.removed tgt k dir fuel fuel k ((k : Int) + dir) s.ids
  let ids ← wr ids tgt pair1
  pure { s with ids := ids }

/-- the `while (1)` over `k` of `body` (impl.cpp:453-489) -/
def search (he : Array CH) (numEdge i segmentEnd pair0 : Nat) (h0 : CH) :
    Nat → Nat → St → Except HErr St
  | 0, _, _ => .error .fuel
  | f + 1, k, s => do
    let pair1 ← rd s.ids k
    let h1 ← rd he pair1
    if h0.startVert != h1.endVert || h0.endVert != h1.startVert then pure s else
    let r1 ← rd s.removed pair1
    let opposed ←
      if r1 then pure false else do
        let n0 ← rd he (nextHalfedge pair0)
        let n1 ← rd he (nextHalfedge pair1)
        pure (n0.endVert == n1.endVert)
    if opposed then
      let removed ← wr s.removed pair0 true
      let removed ← wr removed pair1 true
      let s' : St := { s with removed := removed }
      if i + numEdge != k then reorder numEdge i k pair1 s' else pure s'
    else
      let k' := k + 1
      if k' ≥ segmentEnd + numEdge then pure s else search he numEdge i segmentEnd pair0 h0 f k' s

/-- `body(i, consecutiveStart, segmentEnd)` (impl.cpp:449-495); returns the new state and the
new `consecutiveStart` -/
def body (he : Array CH) (numEdge i consecutiveStart segmentEnd : Nat) (s : St) :
    Except HErr (St × Nat) := do
  let pair0 ← rd s.ids i
  let h0 ← rd he pair0
  let k := consecutiveStart + numEdge
  let s' ← search he numEdge i segmentEnd pair0 h0 (segmentEnd + numEdge + 1 - k) k s
  if i + 1 == segmentEnd then pure (s', consecutiveStart) else
  let n ← rd s'.ids ((i : Int) + 1)
  let h1 ← rd he n
  if h1.startVert == h0.startVert && h1.endVert == h0.endVert then pure (s', consecutiveStart)
  else pure (s', i + 1)

/-- impl.cpp:523-525, `n` iterations starting at `i` -/
def serialLoop (he : Array CH) (numEdge : Nat) : Nat → Nat → Nat → St → Except HErr St
  | 0, _, _, s => pure s
  | n + 1, i, cs, s => do
    let (s', cs') ← body he numEdge i cs numEdge s
    serialLoop he numEdge n (i + 1) cs' s'

/-- `halfedge_` as three parallel arrays (struct-of-arrays `Halfedges`, shared.h:212-240) -/
structure Out where
  start : Array Int
  paired : Array Int
  prop : Array Int
deriving Repr, DecidableEq, Inhabited

/-- impl.cpp:530-549 for one `i` -/
def finishStep (he : Array CH) (numEdge : Nat) (s : St) (o : Out) (i : Nat) : Except HErr Out := do
  let pair0 ← rd s.ids i
  let pair1 ← rd s.ids ((i : Int) + numEdge)
  let r ← rd s.removed pair0
  if !r then
    let h0 ← rd he pair0
    let st ← wr o.start pair0 (h0.startVert : Int)
    let pr ← wr o.prop pair0 (h0.propVert : Int)
    let pa ← wr o.paired pair0 (pair1 : Int)
    let h1 ← rd he pair1
    let st ← wr st pair1 (h1.startVert : Int)
    let pr ← wr pr pair1 (h1.propVert : Int)
    let pa ← wr pa pair1 (pair0 : Int)
    pure ⟨st, pa, pr⟩
  else
    let st ← wr o.start pair0 (-1)
    let pr ← wr o.prop pair0 0
    let pa ← wr o.paired pair0 (-1)
    let st ← wr st pair1 (-1)
    let pr ← wr pr pair1 0
    let pa ← wr pa pair1 (-1)
    pure ⟨st, pa, pr⟩

def finish (he : Array CH) (numEdge : Nat) (s : St) : Nat → Nat → Out → Except HErr Out
  | 0, _, o => pure o
  | n + 1, i, o => do
    let o' ← finishStep he numEdge s o i
    finish he numEdge s n (i + 1) o'

/-- the state after the opposed-triangle removal (exposed for the theorems) -/
def removalState (triVert : List Tri) : Except HErr St :=
  let he := prep triVert
  let numHalfedge := he.size
  let numEdge := numHalfedge / 2
  serialLoop he numEdge numEdge 0 0 ⟨sortIds he, Array.replicate numHalfedge false⟩

/-- `Manifold::Impl::CreateHalfedges(triVerts)`, sorted-key path, serial build -/
def createHalfedges (triVert : List Tri) : Except HErr Out := do
  let he := prep triVert
  let numHalfedge := he.size
  let numEdge := numHalfedge / 2
  let s ← removalState triVert
  let z : Array Int := Array.replicate numHalfedge 0
  finish he numEdge s numEdge 0 ⟨z, z, z⟩

/-! ## `CheckHalfedges`, `IsManifold`, `Is2Manifold` -/

/-- `halfedges.End(e) = start_[NextHalfedge(e)]` -/
def endOf (start : Array Int) (e : Nat) : Int := start[nextHalfedge e]!

/-- `start == -1 && end == -1 && pair == -1` -/
def Tomb (start paired : Array Int) (e : Nat) : Prop :=
  start[e]! = -1 ∧ endOf start e = -1 ∧ paired[e]! = -1

instance (start paired : Array Int) (e : Nat) : Decidable (Tomb start paired e) := by
  unfold Tomb; infer_instance

/-- `CheckHalfedges::operator()(e)` returns true (properties.cpp:75-92).  The C++ reads
`Pair(pair)`, `End(pair)`, `Start(pair)` unchecked; "paired in range" is made explicit. -/
def GoodHalfedge (start paired : Array Int) (e : Nat) : Prop :=
  Tomb start paired e ∨
  (start[nextHalfedge e]! ≠ -1 ∧ start[nextHalfedge (nextHalfedge e)]! ≠ -1 ∧
   0 ≤ paired[e]! ∧ (paired[e]!).toNat < start.size ∧
   paired[(paired[e]!).toNat]! = (e : Int) ∧
   start[e]! ≠ endOf start e ∧
   start[e]! = endOf start (paired[e]!).toNat ∧
   endOf start e = start[(paired[e]!).toNat]!)

instance (start paired : Array Int) (e : Nat) : Decidable (GoodHalfedge start paired e) := by
  unfold GoodHalfedge; infer_instance

/-- `Impl::IsManifold()` (properties.cpp:102-107) on the struct-of-arrays -/
def PairInv (start paired : Array Int) : Prop :=
  start.size = paired.size ∧ start.size % 3 = 0 ∧
  ∀ e, e < start.size → GoodHalfedge start paired e

instance (start paired : Array Int) : Decidable (PairInv start paired) := by
  unfold PairInv; infer_instance

/-- The extra check of `Impl::Is2Manifold()` (properties.cpp:113-131): after sorting the
halfedges by (start, end), no non-tombstone halfedge equals its successor; i.e. no two distinct
halfedges, one of them not a tombstone, carry the same directed edge. -/
def NoDupEdge (start paired : Array Int) : Prop :=
  ∀ e₁, e₁ < start.size → ∀ e₂, e₂ < start.size → e₁ ≠ e₂ → ¬ Tomb start paired e₁ →
    ¬ (start[e₁]! = start[e₂]! ∧ endOf start e₁ = endOf start e₂)

instance (start paired : Array Int) : Decidable (NoDupEdge start paired) := by
  unfold NoDupEdge; infer_instance

/-- the triangle list read back from `start` (`triVerts[t] = Start(3t), Start(3t+1), Start(3t+2)`),
tombstoned triangles dropped -/
def readBack (start : Array Int) : List Tri :=
  (List.range (start.size / 3)).filterMap fun t =>
    let a := start[3 * t]!; let b := start[3 * t + 1]!; let c := start[3 * t + 2]!
    if a < 0 ∨ b < 0 ∨ c < 0 then none else some (a.toNat, b.toNat, c.toNat)

end MV.Halfedge
