/-
Model of the progress / cancellation machinery observed through `ExecutionContext` (property C15).
Core Lean only (the driver links against this file).

What is transliterated (line numbers of the pinned tree):
* `ExecutionContext::Impl` counters and `Progress()`                 src/execution_impl.h:82-101, execution_impl.cpp:93-101
* the reset in `Manifold::GetCsgLeafNode` / `ResetForStaticFactory`  src/manifold.cpp:183-207, execution_impl.cpp:34-43
  (four relaxed stores, numerators first — the order is REGENERATED in `MV.Gen.Phases.resetOrder*`)
* `ADVANCE_PHASE_OR_RETURN` (check, then credit 1)                   src/execution_impl.h:160-171
* `Boolean3::Result`'s `phase()` (credit 1, then check) + `PhaseBalance` src/boolean_result.cpp:714-772
* the leaf-reduction count of `CsgOpNode::ToLeafNode` / `BatchUnion` / `BatchBoolean` / `Compose`
  and `CsgOpNode::NumLeaves`                                          src/csg_tree.cpp:424-560, 641-846, 861-888
* cancellation: the sticky flag read at `IsCancelled` check points, the ctx-aware `for_each`
  (a cancelled chunk check skips the rest of the range), the post-loop check discipline, the poisoning
  of `cache_` in `ToLeafNode`                                         src/parallel.h:400-438, csg_tree.cpp:750-763

Nondeterminism is explicit: the interleaving of the evaluating thread with an observer thread is a list
of micro events; collapse decisions (`canCollapse` depends on `use_count`) and the `BatchUnion`
partitions (bounding boxes) are annotations / arguments quantified over in the theorems; the number
and position of check points inside an operation is an arbitrary natural number per node.
-/
import MV.Gen.Phases

namespace MV.Progress
open MV.Gen.Phases

/-! ## 1. counters, writer micro steps, the observer's two loads -/

structure Counters where
  totalPhases : Nat := 0
  donePhases : Nat := 0
  totalBooleans : Nat := 0
  doneBooleans : Nat := 0
deriving DecidableEq, Repr, Inhabited

/-- one atomic operation of the evaluating thread on the shared counters -/
inductive WEv where
  | stDoneB (v : Nat)      -- doneBooleans.store(v)
  | stDoneP (v : Nat)      -- donePhases.store(v)
  | stTotalB (v : Nat)     -- totalBooleans.store(v)
  | stTotalP (v : Nat)     -- totalPhases.store(v)
  | addDoneP (n : Nat)     -- donePhases.fetch_add(n)
  | addDoneB (n : Nat)     -- doneBooleans.fetch_add(n)
  | topUpB                 -- doneBooleans.store(totalBooleans.load())   (the `fix:` in GetCsgLeafNode)
  | topUpP                 -- donePhases.store(totalPhases.load())
deriving DecidableEq, Repr

def Counters.apply (c : Counters) : WEv → Counters
  | .stDoneB v => { c with doneBooleans := v }
  | .stDoneP v => { c with donePhases := v }
  | .stTotalB v => { c with totalBooleans := v }
  | .stTotalP v => { c with totalPhases := v }
  | .addDoneP n => { c with donePhases := c.donePhases + n }
  | .addDoneB n => { c with doneBooleans := c.doneBooleans + n }
  | .topUpB => { c with doneBooleans := c.totalBooleans }
  | .topUpP => { c with donePhases := c.totalPhases }

/-- the store named by a generated counter name -/
def storeOf (b t : Nat) : String → Option WEv
  | "doneBooleans" => some (.stDoneB 0)
  | "donePhases" => some (.stDoneP 0)
  | "totalBooleans" => some (.stTotalB b)
  | "totalPhases" => some (.stTotalP t)
  | _ => none

/-- the reset sequence in the order given by the translator -/
def resetOfOrder (order : List String) (b t : Nat) : List WEv := order.filterMap (storeOf b t)

/-- the reset as coded: numerators before denominators (manifold.cpp:197-201, execution_impl.cpp:35-38) -/
def resetCoded (b t : Nat) : List WEv := [.stDoneB 0, .stDoneP 0, .stTotalB b, .stTotalP t]

/-- the mutation "totals stored before dones" -/
def resetSwapped (b t : Nat) : List WEv := [.stTotalB b, .stTotalP t, .stDoneB 0, .stDoneP 0]

/-- control state of the evaluating thread with respect to the reset discipline -/
inductive WPhase where
  | run (budget : Nat)   -- inside one evaluation: `budget` phases may still be credited
  | r1                   -- after doneBooleans.store(0)
  | r2                   -- after donePhases.store(0)
  | r3                   -- after totalBooleans.store(b)
deriving DecidableEq, Repr

/-- the discipline: a reset is the four stores in the coded order; between resets only credits that stay
within the denominator (the reduction-count theorems of section 3 are what justify the budget) and the
final top-up. `none` = the writer left the discipline. -/
def WPhase.step : WPhase → WEv → Option WPhase
  | .run _, .stDoneB v => if v = 0 then some .r1 else none
  | .r1, .stDoneP v => if v = 0 then some .r2 else none
  | .r2, .stTotalB _ => some .r3
  | .r3, .stTotalP t => some (.run t)
  | .run b, .addDoneP n => if n ≤ b then some (.run (b - n)) else none
  | .run b, .addDoneB _ => some (.run b)
  | .run b, .topUpB => some (.run b)
  | .run _, .topUpP => some (.run 0)
  | _, _ => none

/-- events of an interleaving of the evaluating thread with one observer calling `Progress()` -/
inductive Ev where
  | w (e : WEv)
  | loadTotal     -- `const int total = impl_->totalPhases.load(...)`
  | loadDone      -- `impl_->donePhases.load(...)` (not executed when total == 0: Progress() returns 1.0)
deriving DecidableEq, Repr

/-- the observer between its two loads -/
structure Pending where
  total : Nat
  gen : Nat          -- reset generation at the first load
  inRun : Bool       -- the first load happened outside a reset window
  crossed : Bool     -- a `totalPhases.store` happened since the first load
  dirty : Bool       -- ... and, after it, a positive credit: the observer slept through a whole phase
deriving DecidableEq, Repr

/-- one value returned by `Progress()`: `done / total`, or `1.0` when `total = 0` -/
structure Obs where
  total : Nat
  done : Nat
  gen : Nat
  clean : Bool       -- both loads inside the same evaluation (after its reset completed, before the next one began)
  dirty : Bool
deriving DecidableEq, Repr

structure St where
  c : Counters := {}
  ph : WPhase := .run 0
  gen : Nat := 0                 -- number of resets begun
  pend : Option Pending := none
  log : List Obs := []           -- newest first
deriving Repr

def isRun : WPhase → Bool
  | .run _ => true
  | _ => false

def St.step (s : St) : Ev → Option St
  | .w e =>
    match s.ph.step e with
    | none => none
    | some ph' =>
      let gen' := match e with | .stDoneB _ => s.gen + 1 | _ => s.gen
      let pend' := s.pend.map fun p =>
        match e with
        | .stTotalP _ => { p with crossed := true }
        | .addDoneP n => if p.crossed && decide (0 < n) then { p with dirty := true } else p
        | .topUpP => if p.crossed then { p with dirty := true } else p
        | _ => p
      some { s with c := s.c.apply e, ph := ph', gen := gen', pend := pend' }
  | .loadTotal =>
    match s.pend with
    | some _ => none     -- one observer, loads strictly alternate
    | none =>
      if s.c.totalPhases = 0 then
        -- Progress() returns 1.0 without touching donePhases
        some { s with log := { total := 0, done := 0, gen := s.gen, clean := isRun s.ph, dirty := false } :: s.log }
      else
        some { s with pend := some { total := s.c.totalPhases, gen := s.gen, inRun := isRun s.ph, crossed := false, dirty := false } }
  | .loadDone =>
    match s.pend with
    | none => none
    | some p =>
      some { s with pend := none,
                    log := { total := p.total, done := s.c.donePhases, gen := s.gen,
                             clean := p.inRun && isRun s.ph && decide (p.gen = s.gen), dirty := p.dirty } :: s.log }

def St.run (s : St) : List Ev → Option St
  | [] => some s
  | e :: es => match s.step e with
    | none => none
    | some s' => s'.run es

/-- `Progress()` as a fraction `(num, den)`, `den > 0` -/
def Obs.frac (o : Obs) : Nat × Nat := if o.total = 0 then (1, 1) else (o.done, o.total)

/-- `p ≤ q` on fractions with positive denominators -/
def fracLe (p q : Nat × Nat) : Prop := p.1 * q.2 ≤ q.1 * p.2
instance (p q : Nat × Nat) : Decidable (fracLe p q) := by unfold fracLe; infer_instance

/-- the same two-load observer on an UNdisciplined writer (used to show what the coded store order buys):
returns the (done, total) pairs `Progress()` divided -/
def rawObserve (c : Counters) (pend : Option Nat) : List Ev → List (Nat × Nat)
  | [] => []
  | .w e :: rest => rawObserve (c.apply e) pend rest
  | .loadTotal :: rest => rawObserve c (some c.totalPhases) rest
  | .loadDone :: rest =>
    match pend with
    | some t => (c.donePhases, t) :: rawObserve c none rest
    | none => rawObserve c none rest

/-! ## 2. publication of one Boolean and of one static factory -/

/-- how `Boolean3::Result` returned -/
inductive ResultPath where
  | early (j : Nat)   -- a non-cancelled return before the end, after `j` phase() sites
                      --   (operand status error, empty operand, `!valid`, `numVertR == 0`)
  | full              -- the happy path: every phase() site passed, `balance.fullPath = true`
  | cancelled (j : Nat) -- the `j`-th phase() site saw the cancel flag (it had already credited its 1)
deriving DecidableEq, Repr

/-- phases published by one `Boolean3::Result` (`phase()` credits + `~PhaseBalance`) when the function
body has `sites` phase() sites and the constant is `K` -/
def published (sites K : Nat) : ResultPath → Nat
  | .early j => j + (K - j)          -- `if (published < K) fetch_add(K - published)`
  | .full => sites                   -- no top-up on the full path (only a DEBUG_ASSERT)
  | .cancelled j => j                -- `if (IsCancelled(ctx)) return;` in the destructor

/-- a static factory with `sites` ADVANCE_PHASE_OR_RETURN sites; `cancelAt = some i` : the `i`-th site
(1-based) sees the cancel flag. Returns (donePhases, cancelled). `checkFirst` is the generated
`advanceChecksBeforeCredit`. -/
def factoryRun (sites : Nat) (checkFirst : Bool) : Option Nat → Nat × Bool
  | none => (sites, false)
  | some i => if 1 ≤ i ∧ i ≤ sites then ((if checkFirst then i - 1 else i), true) else (sites, false)

/-! ## 3. leaf-reduction count of a CSG evaluation -/

inductive Op where
  | add | intersect | subtract
deriving DecidableEq, Repr

mutual
/-- an expression as `GetCsgLeafNode` finds it. `collapse` : the `use_count() <= 2 && impl_.UseCount() == 1`
part of `canCollapse` (depends on handles held by the caller - free). `share = some id` : the children
vector `impl_` is shared (the same `CsgOpNode` in two parents, or `Transform` copies of it); all
occurrences carry the same `id`. -/
inductive Csg where
  | leaf : Csg
  | node (op : Op) (collapse : Bool) (share : Option Nat) (kids : Kids) : Csg
deriving DecidableEq, Repr
inductive Kids where
  | nil : Kids
  | cons (t : Csg) (ks : Kids) : Kids
deriving DecidableEq, Repr
end

mutual
/-- `CsgOpNode::NumLeaves` : walks the UNFOLDED expression; a node whose shared `impl_` has already been
reduced (`memo`) counts as one leaf (csg_tree.cpp:866, 873; `impl_ = {result}` after evaluation) -/
def Csg.numLeaves (memo : List Nat) : Csg → Nat
  | .leaf => 1
  | .node _ _ share kids =>
    match share with
    | some id => if id ∈ memo then 1 else kids.numLeaves memo
    | none => kids.numLeaves memo
def Kids.numLeaves (memo : List Nat) : Kids → Nat
  | .nil => 0
  | .cons t ks => t.numLeaves memo + ks.numLeaves memo
end

def Kids.length : Kids → Nat
  | .nil => 0
  | .cons _ ks => ks.length + 1

/-- `BatchBoolean` on `k` operands: rounds of up to four `SimpleBoolean`s on the heap
(csg_tree.cpp:457-490). Returns the number of `SimpleBoolean` calls. -/
def batchBooleanCount (k : Nat) : Nat :=
  go k k
where
  go (fuel h : Nat) : Nat :=
    match fuel with
    | 0 => 0
    | fuel + 1 =>
      if h ≤ 1 then 0
      else
        let j := min 4 (h / 2)     -- pairs popped in this round
        j + go fuel (h - j)

/-- one round of `BatchUnion` on a chunk partitioned into pairwise-disjoint sets of the given sizes:
`Compose` credits `size - 1` per set, then `BatchBoolean` over the sets (csg_tree.cpp:529-557) -/
def batchUnionRound (sets : List Nat) : Nat :=
  (sets.map (· - 1)).sum + batchBooleanCount sets.length

/-- `BatchUnion` on `n` children; `rounds` are the partitions chosen round by round (they depend on
bounding boxes). `none` = the partition does not fit the chunk (not a partition of it). -/
def batchUnionCredits (n : Nat) : List (List Nat) → Option Nat
  | [] => if n ≤ 1 then some 0 else none
  | sets :: rest =>
    if n ≤ 1 then none
    else
      let chunk := min n 1000       -- kMaxUnionSize
      if sets.sum = chunk ∧ sets.all (0 < ·) then
        match batchUnionCredits (n - chunk + 1) rest with
        | some c => some (batchUnionRound sets + c)
        | none => none
      else none

/-- reductions credited by the `finalize` step of a node with `p` positive and `q` negative children
(csg_tree.cpp:767-797); each `BatchUnion (n)` is credited `n - 1` (theorem `batchUnionCredits_eq`) -/
def finalizeCredits : Op → Nat → Nat → Option Nat
  | .add, p, q => if q = 0 ∧ 1 ≤ p then some (p - 1) else none
  | .intersect, p, q => if q = 0 then some (batchBooleanCount p) else none
  | .subtract, p, q =>
    if p = 0 then some 0
    else if q = 0 then some (p - 1)
    else some ((p - 1) + (q - 1) + 1)

/-- what processing one stack frame (and everything below it) does -/
structure Out where
  pos : Nat        -- leaves pushed to the frame's `positive_dest`
  neg : Nat        -- leaves pushed to the frame's `negative_dest`
  credits : Nat    -- leaf reductions credited to the context
  memo : List Nat  -- shared `impl_`s reduced so far
deriving Repr

mutual
/-- a child `t` of a node with operation `parentOp`; `hasNeg` : the frame's `negative_dest` is non-null.
`none` = a push through a null destination (never happens on expressions built through the API; the
theorems are stated for evaluations that return `some`). -/
def Csg.eval (parentOp : Op) (hasNeg : Bool) (memo : List Nat) : Csg → Option Out
  | .leaf => some { pos := 1, neg := 0, credits := 0, memo := memo }
  | .node op collapse share kids =>
    let hit := match share with | some id => decide (id ∈ memo) | none => false
    if hit then
      -- `impl_ = {leaf}` : `impl->size() == 1` collapses the frame and pushes that leaf
      some { pos := 1, neg := 0, credits := 0, memo := memo }
    else if share.isNone && collapse && (decide (op = parentOp)) then
      -- canCollapse: the children go to the parent's destinations
      kids.eval op hasNeg true memo
    else
      -- own positive_children / negative_children, then finalize
      match kids.eval op true true memo with
      | none => none
      | some o =>
        match finalizeCredits op o.pos o.neg with
        | none => none
        | some f =>
          some { pos := 1, neg := 0, credits := o.credits + f,
                 memo := match share with | some id => id :: o.memo | none => o.memo }
/-- the children of a node with operation `op` whose destinations are (`pos`, `neg` if `hasNeg`) -/
def Kids.eval (op : Op) (hasNeg : Bool) (first : Bool) (memo : List Nat) : Kids → Option Out
  | .nil => some { pos := 0, neg := 0, credits := 0, memo := memo }
  | .cons t ks =>
    let negative : Bool := decide (op = .subtract) && !first
    -- dest1 = negative ? neg_dest : pos_dest ; dest2 = (subtract && i == 0) ? neg_dest : nullptr
    if negative && !hasNeg then none
    else
      let childHasNeg : Bool := decide (op = .subtract) && first && hasNeg
      match t.eval (if negative then Op.add else op) childHasNeg memo with
      | none => none
      | some a =>
        if decide (a.neg ≠ 0) && !childHasNeg then none
        else
          match ks.eval op hasNeg false a.memo with
          | none => none
          | some b =>
            if negative then
              some { pos := b.pos, neg := a.pos + a.neg + b.neg, credits := a.credits + b.credits, memo := b.memo }
            else
              some { pos := a.pos + b.pos, neg := a.neg + b.neg, credits := a.credits + b.credits, memo := b.memo }
end

/-- the root frame (`positive_dest == nullptr` : never collapsed) -/
def Csg.evalRoot (memo : List Nat) : Csg → Option Out
  | .leaf => some { pos := 1, neg := 0, credits := 0, memo := memo }
  | .node op _ share kids =>
    let hit := match share with | some id => decide (id ∈ memo) | none => false
    if hit then some { pos := 1, neg := 0, credits := 0, memo := memo }
    else
      match kids.eval op true true memo with
      | none => none
      | some o =>
        match finalizeCredits op o.pos o.neg with
        | none => none
        | some f => some { pos := 1, neg := 0, credits := o.credits + f,
                           memo := match share with | some id => id :: o.memo | none => o.memo }

mutual
/-- no sharing anywhere: a tree -/
def Csg.isTree : Csg → Bool
  | .leaf => true
  | .node _ _ share kids => share.isNone && kids.isTree
def Kids.isTree : Kids → Bool
  | .nil => true
  | .cons t ks => t.isTree && ks.isTree
end

mutual
/-- every op node has at least one child (`Manifold::Boolean` gives 2, `BatchBoolean` ≥ 2, an evaluated
node exactly 1) -/
def Csg.wf : Csg → Bool
  | .leaf => true
  | .node _ _ _ kids => decide (1 ≤ kids.length) && kids.wf
def Kids.wf : Kids → Bool
  | .nil => true
  | .cons t ks => t.wf && ks.wf
end

/-- the counters after `GetCsgLeafNode(ctx)` returned uncancelled, every Boolean publishing `K` phases.
`topUp` is the generated `csgTopsUpOnCompletion`. Returns (donePhases, totalPhases, doneBooleans, totalBooleans). -/
def csgFinalCounters (K : Nat) (topUp : Bool) (memo : List Nat) (t : Csg) : Option (Nat × Nat × Nat × Nat) :=
  match t.evalRoot memo with
  | none => none
  | some o =>
    let leaves := t.numLeaves memo
    let booleans := if 0 < leaves then leaves - 1 else 0
    let total := booleans * K
    if topUp then some (total, total, booleans, booleans)
    else some (o.credits * K, total, o.credits, booleans)

/-- DESIGN.md section 7, defect 2: `s = (a+b)-c ; root = s + s.Translate(..).Rotate(..)`.
`s` and its transformed copy share one `impl_` (id 0); the caller holds `s`, so nothing collapses. -/
def dagExampleS : Csg :=
  .node .subtract false (some 0) (.cons (.node .add false none (.cons .leaf (.cons .leaf .nil))) (.cons .leaf .nil))
def dagExample : Csg := .node .add false none (.cons dagExampleS (.cons dagExampleS .nil))

/-! ## 4. cancellation -/

/-- checks that still pass before `Cancel()` takes effect; `none` = never cancelled. "Cancel at the
`k`-th check" is `some (k - 1)`. The flag is sticky: `some 0` stays `some 0`. -/
abbrev Fuel := Option Nat

/-- one `IsCancelled(ctx)`: (cancelled?, fuel afterwards) -/
def tick : Fuel → Bool × Fuel
  | none => (false, none)
  | some 0 => (true, some 0)
  | some (n + 1) => (false, some n)

/-- statements of an eager operation on one `Manifold::Impl`, as far as cancellation is concerned -/
inductive Stmt where
  | work (id : Nat)      -- cancel-blind work (Subdivide, QuickHull::buildMesh, stable_sort ...)
  | loop (id : Nat) (chunks : Nat)
                         -- ctx-aware for_each: one check per chunk; a cancelled check skips the REST of the range
  | check                -- `if (IsCancelled(ctx)) { MakeEmpty(Error::Cancelled); return; }`
                         --   (also stands for `if (IsCancelled(ctx)) return;` in a callee whose caller checks next)
deriving DecidableEq, Repr

/-- what has been built: completed work items, and whether some loop was cut short -/
structure Built where
  items : List Nat := []
  partialOutput : Bool := false
deriving DecidableEq, Repr

inductive Result where
  | value (b : Built)    -- a mesh with status NoError
  | cancelled            -- empty, Error::Cancelled
deriving DecidableEq, Repr

/-- a loop of `n` chunk checks: returns (all chunks ran?, fuel) -/
def runLoop : Nat → Fuel → Bool × Fuel
  | 0, f => (true, f)
  | n + 1, f =>
    match tick f with
    | (true, f') => (false, f')        -- `if (IsCancelled(ctx)) return;` : the rest of the range is skipped
    | (false, f') => runLoop n f'

def exec : List Stmt → Fuel → Built → Result × Fuel
  | [], f, b => (.value b, f)
  | .work id :: rest, f, b => exec rest f { b with items := id :: b.items }
  | .loop id n :: rest, f, b =>
    match runLoop n f with
    | (true, f') => exec rest f' { b with items := id :: b.items }
    | (false, f') => exec rest f' { b with items := id :: b.items, partialOutput := true }
  | .check :: rest, f, b =>
    match tick f with
    | (true, f') => (.cancelled, f')
    | (false, f') => exec rest f' b

/-- the discipline of src/sort.cpp:243 "every ctx-passing parallel op is followed by IsCancelled":
after every loop there is a later check -/
def guarded : List Stmt → Bool
  | [] => true
  | .loop _ _ :: rest => rest.contains .check && guarded rest
  | _ :: rest => guarded rest

/-- number of `IsCancelled` checks of an uncancelled run -/
def checksOf : List Stmt → Nat
  | [] => 0
  | .work _ :: rest => checksOf rest
  | .loop _ n :: rest => n + checksOf rest
  | .check :: rest => 1 + checksOf rest

/-- `cache_` of an op node -/
inductive Cache where
  | empty | done | cancelled
deriving DecidableEq, Repr

mutual
/-- an expression under evaluation: `checks` = number of `IsCancelled` sites passed while this node is
finalized (the loop-top check of `ToLeafNode`, `BatchUnion`/`BatchBoolean` loop checks, every check inside
every `Boolean3`) - any number -/
inductive CTree where
  | leaf : CTree
  | node (cache : Cache) (checks : Nat) (kids : CKids) : CTree
deriving DecidableEq, Repr
inductive CKids where
  | nil : CKids
  | cons (t : CTree) (ks : CKids) : CKids
deriving DecidableEq, Repr
end

/-- `n` consecutive checks -/
def ticks : Nat → Fuel → Bool × Fuel
  | 0, f => (false, f)
  | n + 1, f =>
    match tick f with
    | (true, f') => (true, f')
    | (false, f') => ticks n f'

def CTree.cacheOf : CTree → Cache
  | .leaf => .done
  | .node c _ _ => c

mutual
/-- frames that are on the stack but not started when the cancel is seen: poisoned too
(csg_tree.cpp:758-760 `for (auto& frame : stack) if (!frame->op_node->cache_) ... = cancelled`) -/
def CKids.poisonPending : CKids → CKids
  | .nil => .nil
  | .cons t ks =>
    .cons (match t with
           | .node .empty n kids => .node .cancelled n kids
           | t => t) ks.poisonPending
end

mutual
/-- `ToLeafNode(ctx)` on one node: (cancelled?, fuel, the node afterwards) -/
def CTree.eval (f : Fuel) : CTree → Bool × Fuel × CTree
  | .leaf => (false, f, .leaf)
  | .node .cancelled n kids => (true, f, .node .cancelled n kids)    -- `if (cache_ != nullptr) return cache_;`
  | .node .done n kids => (false, f, .node .done n kids)
  | .node .empty n kids =>
    match kids.eval f with
    | (true, f', kids') => (true, f', .node .cancelled n kids')       -- poisoned: it was on the stack
    | (false, f', kids') =>
      match ticks (n + 1) f' with
      | (true, f'') => (true, f'', .node .cancelled n kids')
      | (false, f'') => (false, f'', .node .done n kids')
def CKids.eval (f : Fuel) : CKids → Bool × Fuel × CKids
  | .nil => (false, f, .nil)
  | .cons t ks =>
    match t.eval f with
    | (true, f', t') => (true, f', .cons t' ks.poisonPending)
    | (false, f', t') =>
      match ks.eval f' with
      | (c, f'', ks') => (c, f'', .cons t' ks')
end

mutual
/-- all caches empty: a freshly built expression -/
def CTree.fresh : CTree → Bool
  | .leaf => true
  | .node c _ kids => decide (c = .empty) && kids.fresh
def CKids.fresh : CKids → Bool
  | .nil => true
  | .cons t ks => t.fresh && ks.fresh
end

mutual
/-- the same expression rebuilt from its leaves -/
def CTree.rebuild : CTree → CTree
  | .leaf => .leaf
  | .node _ n kids => .node .empty n kids.rebuild
def CKids.rebuild : CKids → CKids
  | .nil => .nil
  | .cons t ks => .cons t.rebuild ks.rebuild
end

mutual
/-- no poisoned node inside -/
def CTree.clean : CTree → Bool
  | .leaf => true
  | .node c _ kids => decide (c ≠ .cancelled) && kids.clean
def CKids.clean : CKids → Bool
  | .nil => true
  | .cons t ks => t.clean && ks.clean
end

mutual
/-- `done` marks only completely evaluated nodes: below a `done` node everything is `done` -/
def CTree.doneClosed : CTree → Bool
  | .leaf => true
  | .node c _ kids => (decide (c ≠ .done) || kids.allDone) && kids.doneClosed
def CKids.doneClosed : CKids → Bool
  | .nil => true
  | .cons t ks => t.doneClosed && ks.doneClosed
def CTree.allDone : CTree → Bool
  | .leaf => true
  | .node c _ kids => decide (c = .done) && kids.allDone
def CKids.allDone : CKids → Bool
  | .nil => true
  | .cons t ks => t.allDone && ks.allDone
end

/-! ## 5. the trace monitor run on the real counter streams -/

/-- kind of one eager call observed through the context -/
inductive Mode where
  | tree       -- one `GetCsgLeafNode(ctx)` reset: Status of a deferred expression, Refine*, Hull
  | multi      -- several evaluations inside one call (Minkowski*: every internal batch resets)
  | fromMesh | smooth | levelSet     -- static factories
deriving DecidableEq, Repr

/-- a sample of the four counters -/
structure Sample where
  dP : Nat
  tP : Nat
  dB : Nat
  tB : Nat
deriving DecidableEq, Repr

/-- one eager call: the samples taken at its `IsCancelled` checks (in order), and the counters after it
returned together with whether the result was `Cancelled` -/
structure Segment where
  mode : Mode
  obs : List Sample
  cancelled : Bool
  last : Sample
deriving DecidableEq, Repr

def Mode.factoryTotal : Mode → Option Nat
  | .fromMesh => some kPhasesPerFromMesh
  | .smooth => some kPhasesPerSmooth
  | .levelSet => some kPhasesPerLevelSet
  | _ => none

def Sample.frac (s : Sample) : Nat × Nat := if s.tP = 0 then (1, 1) else (s.dP, s.tP)

/-- a sample is admissible: numerators within denominators, and for Boolean work the denominators are
tied by `totalPhases = totalBooleans * kPhasesPerBoolean` -/
def Sample.ok (m : Mode) (s : Sample) : Bool :=
  decide (s.dP ≤ s.tP) && decide (s.dB ≤ s.tB) &&
  match m.factoryTotal with
  | some k => decide (s.tP = k) && decide (s.tB = 0)
  | none => decide (s.tP = s.tB * kPhasesPerBoolean)

/-- `b` may follow `a` inside one evaluation -/
def Sample.stepOk (m : Mode) (a b : Sample) : Bool :=
  decide (a.tP = b.tP) && decide (a.tB = b.tB) && decide (a.dP ≤ b.dP) && decide (a.dB ≤ b.dB) &&
  match m.factoryTotal with
  | some _ => decide (b.dP ≤ a.dP + advanceCredit)    -- a check precedes every credit of 1
  | none => true

/-- `b` starts a new evaluation after `a` (only inside `multi` calls) -/
def Sample.resetOk (a b : Sample) : Bool := (decide (b.dP < a.dP) || decide (b.tP ≠ a.tP) || decide (b.tB ≠ a.tB))

/-- all samples of a segment in order, the final one included -/
def Segment.all (g : Segment) : List Sample := g.obs ++ [g.last]

def chainOk (m : Mode) : List Sample → Bool
  | [] => true
  | [a] => a.ok m
  | a :: b :: rest =>
    a.ok m && (a.stepOk m b || (decide (m = .multi) && a.resetOk b)) && chainOk m (b :: rest)

/-- end of a call: an uncancelled completion ends at exactly 1 (both counter pairs); a cancelled static
factory ends strictly below 1 (credit is published only after a phase completed) -/
def Segment.endOk (g : Segment) : Bool :=
  if g.cancelled then
    match g.mode.factoryTotal with
    | some _ => decide (g.last.dP < g.last.tP)
    | none => true
  else decide (g.last.dP = g.last.tP) && decide (g.last.dB = g.last.tB)

def Segment.accept (g : Segment) : Bool := chainOk g.mode g.all && g.endOk

/-- after a cancelled call every later call through the same context is cancelled -/
def suffixCancelled : List Segment → Bool
  | [] => true
  | g :: rest => (if g.cancelled then rest.all (·.cancelled) else true) && suffixCancelled rest

/-- the monitor the driver runs on the real (k, Progress) streams -/
def progressMonitor (gs : List Segment) : Bool := gs.all (·.accept) && suffixCancelled gs

/-- first reason for rejection (for the replay file) -/
def Segment.reason (g : Segment) : String :=
  if !chainOk g.mode g.all then "not-monotone-or-above-1"
  else if !g.endOk then (if g.cancelled then "cancelled-factory-at-1" else "uncancelled-end-not-1")
  else "ok"

def monitorVerdict (gs : List Segment) : String :=
  match gs.find? (fun g => !g.accept) with
  | some g => "bad " ++ g.reason
  | none => if suffixCancelled gs then "ok" else "bad evaluation-after-cancel-not-cancelled"

end MV.Progress
