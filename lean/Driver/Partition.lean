import MV.Model.Partition
import MV.Model.PartitionCheck
import Driver.Util
/-
Line protocol of the `partition` engine (model: MV/Model/Partition.lean, checker:
MV/Model/PartitionCheck.lean).  Tokens separated by single spaces; `;` is a token of its own;
all numbers decimal integers; doubles travel as the decimal value of their IEEE-754 bit pattern.

  part <d0> <d1> <d2> <d3>
      → `<agree> <valid> ; <idx 4> ; <sortedDivisions 4> ; <nV> <nT> ; <3·nT ints: triVert> ; <4·nV bit patterns: vertBary>`
        `Partition::GetPartition({d0,d1,d2,d3})` with the count decisions replayed at Float
        (`Dec.float`).  `agree` = 1 iff the integer-exact decisions (`Dec.exact`, the ones the
        table theorems are about) give the identical partition.  `valid` = `ok` iff the verified
        checker `checkPart` accepts the pattern (exact rational barycentrics), else `bad-…`;
        `big` (checker not run) when the pattern has more than 400 vertices.
        An empty partition (`d0 = 0`) prints `1 empty ; 0 0 0 0 ; 0 0 0 0 ; 0 0 ; ;`.
  topo <d0> <d1> <d2> <d3>
      → as `part` without the barycentric section and with `valid` from `checkTopo` only (large patterns).
  checkraw <n0> <n1> <n2> <n3> ; <nV> ; <3·nT ints>
      → `ok` | `bad-topo` | `big`: the verified combinatorial checker `checkTopo` on a GIVEN triangle list (used by
        the check's search when model and implementation disagree: the implementation's own pattern is judged).
  reindex <d0> <d1> <d2> <d3> ; <tv 4> ; <edgeOffsets 4> ; <edgeFwd 4 (0|1)> ; <interiorOffset>
      → `<3·nT ints>`: `GetPartition(d).Reindex(tv, edgeOffsets, edgeFwd, interiorOffset)`.
  subdiv <numVert> ; <nE> <edgeAdded…> ; <nF> <per face 12 ints: verts 4, edges 4, fwd 4>
      → `<numVertOut> ; <3·T ints: triVerts>`
        the index bookkeeping of `Manifold::Impl::Subdivide` (MV.Partition.subdivideIdx): the size of the
        new vertex array and the triangles handed to `CreateHalfedges`, in order.
  settol <epsBits> <tolBits> <tBits>       → `<epsBits'> <tolBits'>`   (Manifold::SetTolerance)
  simplify <epsBits> <tolBits> <tBits>     → `<usedTolBits> <tolBits'>`                  (Manifold::Simplify)
  seteps <epsBits> <tolBits> <newEpsBits> [<singleBits>] → `<epsBits'> <tolBits'>`       (Impl::SetEpsilon)
Anything malformed → `bad-op`.
-/
namespace PartitionDrv
open MV.Partition

def readI4 (l : List Int) : Option (I4 × List Int) :=
  match l with
  | a :: b :: c :: d :: rest => some (⟨a, b, c, d⟩, rest)
  | _ => none

def showI4 (v : I4) : String := s!"{v.a} {v.b} {v.c} {v.d}"

def showTris (ts : List Tri) : String :=
  " ".intercalate (ts.map fun t => s!"{t.1} {t.2.1} {t.2.2}")

def showInts (l : List Int) : String := " ".intercalate (l.map toString)

def showBary (l : List (V4 Float)) : String :=
  " ".intercalate (l.map fun v => s!"{v.x.toBits} {v.y.toBits} {v.z.toBits} {v.w.toBits}")

def ints (toks : List String) : Option (List Int) := toks.mapM String.toInt?

def splitSemi (toks : List String) : List (List String) :=
  let (acc, cur) := toks.foldl (fun (st : List (List String) × List String) t =>
    if t == ";" then (st.2.reverse :: st.1, []) else (st.1, t :: st.2)) ([], [])
  (cur.reverse :: acc).reverse

def partLine (d : I4) (withBary : Bool) : String :=
  let p := getPartition Dec.float d
  let px := getPartition Dec.exact d
  let agree := if p == px then "1" else "0"
  if d.a == 0 then s!"{agree} empty ; {showI4 p.idx} ; {showI4 p.sorted} ; {p.nV} {p.tris.length} ; ;"
  else
    let valid :=
      if p.nV > 400 then "big"
      else if withBary then (let m := checkPartMsg p; if m == "ok" then "ok" else m.replace " " "-")
      else if p.ok && checkTopo p.sorted p.nV p.tris then "ok" else "bad-topo"
    let head := s!"{agree} {valid} ; {showI4 p.idx} ; {showI4 p.sorted} ; {p.nV} {p.tris.length} ; {showTris p.tris}"
    if withBary then s!"{head} ; {showBary (evalBary (α := Float) p.recs)}" else head

def bitsF (i : Int) : Float := Float.ofBits (UInt64.ofNat i.toNat)

def handle (toks : List String) : String :=
  match toks with
  | "part" :: rest =>
    (match ints rest with
     | some [a, b, c, d] => partLine ⟨a, b, c, d⟩ true
     | _ => "bad-op")
  | "topo" :: rest =>
    (match ints rest with
     | some [a, b, c, d] => partLine ⟨a, b, c, d⟩ false
     | _ => "bad-op")
  | "checkraw" :: rest =>
    (match (splitSemi rest).mapM ints with
     | some [[a, b, c, d], [nV], ts] =>
       let rec tris (l : List Int) (fuel : Nat) : List Tri :=
         match fuel, l with
         | fuel + 1, x :: y :: z :: rest => (x, y, z) :: tris rest fuel
         | _, _ => []
       if nV.toNat > 400 then "big"
       else if checkTopo ⟨a, b, c, d⟩ nV.toNat (tris ts ts.length) then "ok" else "bad-topo"
     | _ => "bad-op")
  | "reindex" :: rest =>
    (match (splitSemi rest).mapM ints with
     | some [[a, b, c, d], [t0, t1, t2, t3], [e0, e1, e2, e3], [f0, f1, f2, f3], [io]] =>
       let p := getPartition Dec.float ⟨a, b, c, d⟩
       showTris (reindex p ⟨t0, t1, t2, t3⟩ ⟨e0, e1, e2, e3⟩ ⟨f0 != 0, f1 != 0, f2 != 0, f3 != 0⟩ io)
     | _ => "bad-op")
  | "subdiv" :: rest =>
    (match (splitSemi rest).mapM ints with
     | some [[numVert], nE :: ea, nF :: fs] =>
       if ea.length != nE.toNat || fs.length != 12 * nF.toNat then "bad-op"
       else
         let rec faces (l : List Int) (fuel : Nat) : List Face :=
           match fuel, l with
           | fuel + 1, v0 :: v1 :: v2 :: v3 :: e0 :: e1 :: e2 :: e3 :: f0 :: f1 :: f2 :: f3 :: rest =>
             (⟨⟨v0, v1, v2, v3⟩, ⟨e0, e1, e2, e3⟩, ⟨f0 != 0, f1 != 0, f2 != 0, f3 != 0⟩⟩ : Face) :: faces rest fuel
           | _, _ => []
         let o := subdivideIdx Dec.float numVert ea (faces fs nF.toNat)
         s!"{o.numVertOut} ; {showTris o.triVerts}"
     | _ => "bad-op")
  | ["settol", e, t, x] =>
    (match ints [e, t, x] with
     | some [e, t, x] =>
       let (s, _) := setTolerance (⟨bitsF e, bitsF t⟩ : TolState Float) (bitsF x)
       s!"{s.epsilon.toBits} {s.tolerance.toBits}"
     | _ => "bad-op")
  | ["simplify", e, t, x] =>
    (match ints [e, t, x] with
     | some [e, t, x] =>
       let (u, s) := simplifyTol (⟨bitsF e, bitsF t⟩ : TolState Float) (bitsF x) (bitsF x == 0.0)
       s!"{u.toBits} {s.tolerance.toBits}"
     | _ => "bad-op")
  | "seteps" :: rest =>
    (match ints rest with
     | some [e, t, ne] =>
       let s := setEpsilon (⟨bitsF e, bitsF t⟩ : TolState Float) (bitsF ne) none
       s!"{s.epsilon.toBits} {s.tolerance.toBits}"
     | some [e, t, ne, sg] =>
       let s := setEpsilon (⟨bitsF e, bitsF t⟩ : TolState Float) (bitsF ne) (some (bitsF sg))
       s!"{s.epsilon.toBits} {s.tolerance.toBits}"
     | _ => "bad-op")
  | _ => "bad-op"

end PartitionDrv
