import MV.Model.CsgBatch
import Driver.Util
/-
Line protocol of the `csgbatch` engine (model: MV/Model/CsgBatch.lean = `BatchUnion` /
`BatchBoolean` of src/csg_tree.cpp).  Tokens separated by single spaces; `;` is a token of its
own; all numbers decimal integers.

  union <K> <grp> ; <leaf>* ; <size>*
      `BatchUnion(children)` with `kMaxUnionSize = K` and pop groups of `grp`.  The i-th <leaf>
      is child `i` (identity `i`): `<NumVert> <x0> <y0> <z0> <x1> <y1> <z1>` (its bounding box, integer
      coordinates) or `<NumVert> E` (empty box).  The k-th <size> is the NumVert of the k-th leaf
      CREATED during the run (identity `n + k`; creation order: per round the Compose results in
      set order, then the SimpleBoolean results in pop order) — the size oracle, taken from the
      real run.  Overlap is `Box::DoesOverlap` on the boxes; the box of a created leaf is the join
      of the boxes of its parts.
      → `<round> | <round> | … | ret <id> box <6 ints or E> next <next id> ub <0|1>`
        `<round>` = `R <start> c <ids of the whole children vector> s <set> / <set> … i <ids of impls> b <ev> , <ev> …`
        `<set>` = chunk-local indices; `<ev>` = `st <operand ids>` | `po <a> <NumVert a> <serial a> <b> <NumVert b> <serial b>`
        | `pu <r> <NumVert r> <serial r>`  (what the hooks onBatchUnionRound / onBatchBoolean* report).
        `ret none` if `children` is empty.
  bool <grp> ; <NumVert>* ; <size>*
      `BatchBoolean(op, results)` on operands with the given NumVert (identities 0..n-1).
      → `<ev> , <ev> … | ret <id> next <next id>`
Malformed input → `bad-op`; a size oracle of the wrong length → `bad-oracle` (never a default).
-/
namespace CsgBatchDrv
open MV.CsgBatch

abbrev L := BLeaf (Option IBox)

/-- parse the leaves group; returns leaves (reversed) and their sizes (reversed) -/
def parseLeaves : Nat → Nat → List String → List L → List Nat → Option (List L × List Nat)
  | _, _, [], ls, ns => some (ls.reverse, ns.reverse)
  | 0, _, _ :: _, _, _ => none
  | fuel + 1, id, nv :: "E" :: rest, ls, ns =>
    match nv.toNat? with
    | some n => parseLeaves fuel (id + 1) rest (⟨id, none⟩ :: ls) (n :: ns)
    | none => none
  | fuel + 1, id, nv :: a :: b :: c :: d :: e :: f :: rest, ls, ns =>
    match nv.toNat?, Drv.ints? [a, b, c, d, e, f] with
    | some n, some [a, b, c, d, e, f] =>
      parseLeaves fuel (id + 1) rest (⟨id, some ⟨a, b, c, d, e, f⟩⟩ :: ls) (n :: ns)
    | _, _ => none
  | _ + 1, _, _, _, _ => none

def showBox : Option IBox → String
  | none => "E"
  | some b => s!"{b.x0} {b.y0} {b.z0} {b.x1} {b.y1} {b.z1}"

def showEv (size : Nat → Nat) : BEv → String
  | .start ids => "st " ++ Drv.joinNat ids
  | .pop a sa b sb => s!"po {a} {size a} {sa} {b} {size b} {sb}"
  | .push r s => s!"pu {r} {size r} {s}"

def showEvs (size : Nat → Nat) (evs : List BEv) : String :=
  " , ".intercalate (evs.map (showEv size))

def showRound (size : Nat → Nat) (r : Round) : String :=
  s!"R {r.start} c {Drv.joinNat r.children} s {" / ".intercalate (r.sets.map Drv.joinNat)} i {Drv.joinNat r.impls} b {showEvs size r.bev}"

def handle (toks : List String) : String :=
  match toks with
  | "union" :: k :: g :: ";" :: rest =>
    match k.toNat?, g.toNat?, Drv.splitOnTok ";" rest with
    | some K, some grp, [leafToks, sizeToks] =>
      match parseLeaves (leafToks.length + 1) 0 leafToks [] [], Drv.nats? sizeToks with
      | some (leaves, nvs), some created =>
        let sizes := (nvs ++ created).toArray
        let size (id : Nat) : Nat := sizes.getD id 0
        let orc : Orc (Option IBox) := ⟨boxOv, fun x => size x.id⟩
        let res := batchUnion boxOps orc K grp leaves leaves.length
        if res.next != sizes.size then "bad-oracle"
        else
          let rounds := res.rounds.map (showRound size)
          let ret := match res.ret with
            | some r => s!"ret {r.id} box {showBox r.val}"
            | none => "ret none"
          " | ".intercalate (rounds ++ [s!"{ret} next {res.next} ub {if res.ub then 1 else 0}"])
      | _, _ => "bad-op"
    | _, _, _ => "bad-op"
  | "bool" :: g :: ";" :: rest =>
    match g.toNat?, Drv.splitOnTok ";" rest with
    | some grp, [nvToks, sizeToks] =>
      match Drv.nats? nvToks, Drv.nats? sizeToks with
      | some nvs, some created =>
        let sizes := (nvs ++ created).toArray
        let size (id : Nat) : Nat := sizes.getD id 0
        let orc : Orc Unit := ⟨fun _ _ => false, fun x => size x.id⟩
        let leaves : List (BLeaf Unit) := (List.range nvs.length).map fun i => ⟨i, ()⟩
        let res := batchBoolean ⟨fun _ => (), fun _ _ => (), ()⟩ orc grp leaves nvs.length
        if res.next != sizes.size then "bad-oracle"
        else
          let ret := match res.ret with
            | some r => s!"ret {r.id}"
            | none => "ret none"
          s!"{showEvs size res.evs} | {ret} next {res.next}"
      | _, _ => "bad-op"
    | _, _ => "bad-op"
  | _ => "bad-op"

end CsgBatchDrv
