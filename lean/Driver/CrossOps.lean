import MV.Model.CrossOps
import Driver.Bool3
import Driver.Util
/-!
Line protocol for engine `crossops` (property C12).  Every floating-point value travels as its
IEEE-754 bit pattern (16 lower-case hex digits; any NaN is `nan`), as in engine `bool3`.  The
functions run are the `Scalar`-polymorphic definitions of MV/Model/CrossOps.lean at `Float`.
A point is two values `x y`; `<pts>` is a sequence of points.

  crossops ccw <p0> <p1> <p2> <tol>              -> -1 | 0 | 1                          (`ccw`)
  crossops eps <k_budget> <L>                    -> <eps>                               (`epsFromScaleF`)
  crossops area <pts>                            -> <area>                              (`signedArea`)
  crossops pir <eps> <p> <pts>                   -> 0 | 1                               (`pointInRing`)
  crossops hull <pts>                            -> <n> <pts>                           (`hullImpl`)
  crossops simplify <tol> <pts>                  -> <n> <pts>                           (`simplifyRing`)
  crossops decompose P <pts> P <pts> …           -> <nRings> <nComp> C <k> R <n> <pts> R … C …   (`decompose`)
  crossops miter <V> <nPrev> <nNext> <delta>     -> <pt>                                (`miterPoint`)
  crossops square <V> <nPrev> <nNext> <delta>    -> <n> <pts>                           (`squareJoin`)
  crossops round <V> <nPrev> <delta> <c s>…      -> <n> <pts>                           (`roundJoin`)
  crossops normal <edge>                         -> <n.x> <n.y>                         (`outwardNormal`)
  crossops offset <jt> <delta> <miterLimit> <nPts> <pts> [A <c s>…]…  -> <n> <pts>      (`offsetContour`)
        <jt> = square | round | miter | bevel; for `round` exactly one `A …` group per vertex of the
        contour, holding the sampled (cosd, sind) of `rotSign * i * subStep`, i = 1 … nSub-1 (possibly none)

Malformed input -> `bad-op`.
-/
namespace CrossOpsDrv
open MV.CrossOps
open Bool3Drv (parseF showF floats?)

def pts? : List Float → Option (List (V2 Float))
  | [] => some []
  | x :: y :: r => (pts? r).map (⟨x, y⟩ :: ·)
  | _ => none

def pairs? : List Float → Option (List (Float × Float))
  | [] => some []
  | x :: y :: r => (pairs? r).map ((x, y) :: ·)
  | _ => none

def showPt (p : V2 Float) : String := s!"{showF p.x} {showF p.y}"
def showPts (ps : List (V2 Float)) : String :=
  if ps.isEmpty then "0" else s!"{ps.length} " ++ " ".intercalate (ps.map showPt)

def parsePts (ts : List String) : Option (List (V2 Float)) := floats? ts >>= pts?

def handleDecompose (toks : List String) : Option String := do
  match toks with
  | [] => some "0 0"                       -- no polygons at all
  | t :: rest =>
    if t != "P" then none
    let groups := Drv.splitOnTok "P" rest
    let polys ← groups.mapM parsePts
    let (rings, comps) := decompose (epsFromScaleF 1000) polys
    let body := comps.map fun c =>
      s!"C {c.length} " ++ " ".intercalate (c.map fun i => "R " ++ showPts (rings.getD i []))
    some (s!"{rings.length} {comps.length}" ++ (if comps.isEmpty then "" else " " ++ " ".intercalate body))

def handleOffset (jtS dS mS nS : String) (rest : List String) : Option String := do
  let delta ← parseF dS
  let ml ← parseF mS
  let n ← nS.toNat?
  if rest.length < 2 * n then none
  let ring ← parsePts (rest.take (2 * n))
  let tail := rest.drop (2 * n)
  let arcs ← (match tail with
    | [] => some []
    | t :: more => if t != "A" then none else
      (Drv.splitOnTok "A" more).mapM fun g => floats? g >>= pairs?)
  let jt ← (match jtS with
    | "square" => if arcs.isEmpty then some Join.square else none
    | "miter" => if arcs.isEmpty then some Join.miter else none
    | "bevel" => if arcs.isEmpty then some Join.bevel else none
    | "round" => if arcs.length == n then some (Join.round arcs) else none
    | _ => none)
  some (showPts (offsetContour offsetConstsF jt delta ml ring))

def handle (toks : List String) : String :=
  let r : Option String :=
    match toks with
    | "ccw" :: rest => do
      match ← floats? rest with
      | [a, b, c, d, e, f, tol] => some (toString (ccw (⟨a, b⟩ : V2 Float) ⟨c, d⟩ ⟨e, f⟩ tol))
      | _ => none
    | ["eps", k, l] => do
      let k ← k.toNat?; let l ← parseF l
      if k > 1000000 then none else some (showF (epsFromScaleF k l))
    | "area" :: rest => do
      let ps ← parsePts rest
      some (showF (signedArea ps))
    | "pir" :: eps :: px :: py :: rest => do
      let eps ← parseF eps; let px ← parseF px; let py ← parseF py
      let ps ← parsePts rest
      some (if pointInRing ⟨px, py⟩ ps eps then "1" else "0")
    | "hull" :: rest => do
      let ps ← parsePts rest
      some (showPts (hullImpl ps))
    | "simplify" :: tol :: rest => do
      let tol ← parseF tol
      let ps ← parsePts rest
      some (showPts (simplifyRing ps tol))
    | "decompose" :: rest => handleDecompose rest
    | "miter" :: rest => do
      match ← floats? rest with
      | [vx, vy, px, py, nx, ny, d] => some (showPt (miterPoint (⟨vx, vy⟩ : V2 Float) ⟨px, py⟩ ⟨nx, ny⟩ d))
      | _ => none
    | "square" :: rest => do
      match ← floats? rest with
      | [vx, vy, px, py, nx, ny, d] => some (showPts (squareJoin (⟨vx, vy⟩ : V2 Float) ⟨px, py⟩ ⟨nx, ny⟩ d))
      | _ => none
    | "round" :: vx :: vy :: px :: py :: d :: rest => do
      let vx ← parseF vx; let vy ← parseF vy; let px ← parseF px; let py ← parseF py; let d ← parseF d
      let rots ← floats? rest >>= pairs?
      some (showPts (roundJoin (⟨vx, vy⟩ : V2 Float) ⟨px, py⟩ d rots))
    | ["normal", ex, ey] => do
      let ex ← parseF ex; let ey ← parseF ey
      some (showPt (outwardNormal (⟨ex, ey⟩ : V2 Float)))
    | "offset" :: jt :: d :: m :: n :: rest => handleOffset jt d m n rest
    | _ => none
  r.getD "bad-op"

end CrossOpsDrv
