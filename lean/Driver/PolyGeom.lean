import MV.Model.PolyGeom
import Driver.Bool3
import Driver.Util
/-!
Line protocol for engine `polygeom` (property C10, deepening C10b).  Every floating-point value
travels as its IEEE-754 bit pattern (16 lower-case hex digits; any NaN is `nan`), as in engines `bool3`
and `crossops`.  The functions run are the `ScalarSqrt`-polymorphic definitions of
MV/Model/PolyGeom.lean at `Float`.  A point is two values `x y`.

  polygeom ccw <p0> <p1> <p2> <tol>                 -> -1 | 0 | 1                      (`CrossOps.ccw`)
  polygeom isconvex <eps> R <pts> R <pts> …         -> <0|1> D <dets> D <dets> …       (`isConvex`; one `D` group per
                                                      contour the loop enters, up to the first rejected one: the
                                                      determinants it computed, the rejected corner's last)
  polygeom isconvexv <eps> R <pts> R <pts> …        -> <0|1>                           (the verdict alone)
  polygeom strip R <idx…> R <idx…> …                -> tris a b c , a b c …            (`triangulateConvex`)
  polygeom precision <eps> <pts>                    -> <epsilon_>                      (`precision`)
  polygeom verts <eps> <N> <px py left right rdx rdy meshIdx>×N Q <query>…   -> one answer per query
      short i | convex i | reflex i | degen i | clipped i | inside self tail toLeft | interior i x y |
      interp i sx sy onTop | earcost i
      (`convex` uses `2 * eps` as ProcessEar does; `earcost` takes the ring through `i` as the collider;
       Bool answers 0/1, an exhausted walk `x`, Int answers decimal, floats as bits)
  polygeom bridge <start> <e> <er>                  -> 0 | 1                           (`bridgeInitial`, 1 = edge->right)
  polygeom ontop <start.y> <bbox.max.y> <bbox.min.y> <eps>   -> -1 | 0 | 1             (`onTop`)
  polygeom checkvert <start> <vert> <connector> <above> <eps> -> 0 | 1                 (`bridgeCheckVert`)

Malformed input -> `bad-op`.
-/
namespace PolyGeomDrv
open MV.CrossOps MV.PolyGeom
open Bool3Drv (parseF showF showB floats?)

def pts? : List Float → Option (List (V2 Float))
  | [] => some []
  | x :: y :: r => (pts? r).map (⟨x, y⟩ :: ·)
  | _ => none

def infF : Float := 1.0 / 0.0
def kPrecisionF : Float := 1e-12

def showOB : Option Bool → String
  | some b => showB b
  | none => "x"

def handleIsConvex (epsS : String) (rest : List String) : Option String := do
  let eps ← parseF epsS
  match rest with
  | [] => some "1"
  | t :: more =>
    if t != "R" then none
    let rings ← (Drv.splitOnTok "R" more).mapM fun g => (floats? g >>= pts?).map List.toArray
    let rec go : List (Array (V2 Float)) → List String → Bool × List String
      | [], acc => (true, acc.reverse)
      | r :: rs, acc =>
        let d := "D" ++ String.join ((isConvexDets eps r).map fun x => " " ++ showF x)
        if isConvexRing eps r then go rs (d :: acc) else (false, (d :: acc).reverse)
    let (v, ds) := go rings []
    if v != isConvex eps rings then none      -- the two formulations of the model must agree
    some (showB v ++ String.join (ds.map (" " ++ ·)))

def handleStrip (rest : List String) : Option String := do
  match rest with
  | [] => some "tris"
  | t :: more =>
    if t != "R" then none
    let rings ← (Drv.splitOnTok "R" more).mapM fun g => (Drv.ints? g).map List.toArray
    let tris := triangulateConvex rings
    some ("tris" ++ (if tris.isEmpty then "" else " ") ++
      " , ".intercalate (tris.map fun (a, b, c) => s!"{a} {b} {c}"))

structure VRow where
  pos : V2 Float
  left : Nat
  right : Nat
  rightDir : V2 Float
  meshIdx : Int

def parseRows : Nat → List String → Option (List VRow × List String)
  | 0, ts => some ([], ts)
  | n + 1, px :: py :: l :: r :: dx :: dy :: m :: ts => do
    let row : VRow := ⟨⟨← parseF px, ← parseF py⟩, ← l.toNat?, ← r.toNat?, ⟨← parseF dx, ← parseF dy⟩, ← m.toInt?⟩
    let (rows, rest) ← parseRows n ts
    some (row :: rows, rest)
  | _, _ => none

def mkVerts (rows : Array VRow) : Verts Float :=
  let d : VRow := ⟨⟨0, 0⟩, 0, 0, ⟨0, 0⟩, 0⟩
  { n := rows.size
    pos := fun i => (rows.getD i d).pos
    left := fun i => (rows.getD i d).left
    right := fun i => (rows.getD i d).right
    rightDir := fun i => (rows.getD i d).rightDir
    meshIdx := fun i => (rows.getD i d).meshIdx }

def idx? (n : Nat) (s : String) : Option Nat := do
  let i ← s.toNat?
  if i < n then some i else none

def queries (vs : Verts Float) (eps : Float) : Nat → List String → List String → Option (List String)
  | 0, _, _ => none
  | _ + 1, [], acc => some acc.reverse
  | f + 1, "short" :: i :: ts, acc => do
    queries vs eps f ts (showB (isShort vs (← idx? vs.n i) eps) :: acc)
  | f + 1, "convex" :: i :: ts, acc => do
    queries vs eps f ts (showB (vertIsConvex vs (← idx? vs.n i) (2 * eps)) :: acc)
  | f + 1, "reflex" :: i :: ts, acc => do
    queries vs eps f ts (showOB (isReflex vs (← idx? vs.n i) eps) :: acc)
  | f + 1, "degen" :: i :: ts, acc => do
    queries vs eps f ts (showB (degenerateEar vs (← idx? vs.n i) eps) :: acc)
  | f + 1, "clipped" :: i :: ts, acc => do
    queries vs eps f ts (showB (clipped vs (← idx? vs.n i)) :: acc)
  | f + 1, "inside" :: s :: t :: tl :: ts, acc => do
    let toLeft ← (if tl == "1" then some true else if tl == "0" then some false else none)
    queries vs eps f ts (showOB (insideEdge vs (← idx? vs.n s) (← idx? vs.n t) eps toLeft) :: acc)
  | f + 1, "interior" :: i :: x :: y :: ts, acc => do
    queries vs eps f ts (toString (interior vs (← idx? vs.n i) ⟨← parseF x, ← parseF y⟩ eps) :: acc)
  | f + 1, "interp" :: i :: x :: y :: ot :: ts, acc => do
    queries vs eps f ts (showF (interpY2X vs (← idx? vs.n i) ⟨← parseF x, ← parseF y⟩ (← ot.toInt?) eps) :: acc)
  | f + 1, "earcost" :: i :: ts, acc => do
    let i ← idx? vs.n i
    let c := earCost vs i eps (ringOf vs i)
    -- a zero maximum: its SIGN depends on the order in which the k-d tree reports tied candidates
    -- (`cost > totalCost` is false between +0 and -0); costs are only ever compared, so the sign is
    -- not observable.  Both sides print +0.
    queries vs eps f ts (showF (if c == 0.0 then 0.0 else c) :: acc)
  | _, _, _ => none

def handleVerts (epsS nS : String) (rest : List String) : Option String := do
  let eps ← parseF epsS
  let n ← nS.toNat?
  let (rows, tail) ← parseRows n rest
  if rows.any (fun r => r.left ≥ n || r.right ≥ n) then none
  match tail with
  | "Q" :: qs =>
    let ans ← queries (mkVerts rows.toArray) eps (qs.length + 1) qs []
    some (" ".intercalate ans)
  | _ => none

def handle (toks : List String) : String :=
  let r : Option String :=
    match toks with
    | ["ccw", a, b, c, d, e, f, t] => do
      let fs ← floats? [a, b, c, d, e, f, t]
      match fs with
      | [a, b, c, d, e, f, t] => some (toString (ccw (⟨a, b⟩ : V2 Float) ⟨c, d⟩ ⟨e, f⟩ t))
      | _ => none
    | "isconvex" :: eps :: rest => handleIsConvex eps rest
    | "isconvexv" :: eps :: rest => (handleIsConvex eps rest).map fun a => (a.take 1).toString
    | "strip" :: rest => handleStrip rest
    | "precision" :: eps :: rest => do
      let e ← parseF eps
      let ps ← floats? rest >>= pts?
      some (showF (precision infF kPrecisionF e ps))
    | "verts" :: eps :: n :: rest => handleVerts eps n rest
    | ["bridge", sx, sy, ex, ey, rx, ry] => do
      match ← floats? [sx, sy, ex, ey, rx, ry] with
      | [sx, sy, ex, ey, rx, ry] => some (showB (bridgeInitial (⟨sx, sy⟩ : V2 Float) ⟨ex, ey⟩ ⟨rx, ry⟩))
      | _ => none
    | ["ontop", sy, mx, mn, eps] => do
      match ← floats? [sy, mx, mn, eps] with
      | [sy, mx, mn, eps] => some (toString (onTop sy mx mn eps))
      | _ => none
    | ["checkvert", sx, sy, vx, vy, cx, cy, ab, eps] => do
      match ← floats? [sx, sy, vx, vy, cx, cy, ab, eps] with
      | [sx, sy, vx, vy, cx, cy, ab, eps] =>
        let ai : Int := if ab == 1.0 then 1 else -1
        if ab != 1.0 && ab != -1.0 then none
        else some (showB (bridgeCheckVert (⟨sx, sy⟩ : V2 Float) ⟨vx, vy⟩ ⟨cx, cy⟩ ab eps ai))
      | _ => none
    | _ => none
  r.getD "bad-op"

end PolyGeomDrv
