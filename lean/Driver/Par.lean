import MV.Model.Par
import Driver.Util
/-!
Line protocol for the C13 models (engine name `par`).

Schedule tokens (preorder): `L` = leaf, `N <k> <0|1> <left> <right>`.
Segments are separated by the token `;`.

  par exscan  <op> <init> <idn> ; xs… ; sched      → out…
  par inscan  add ; xs… ; sched                    → out…
  par reduce  <op> <init> ; xs… ; sched            → value
  par allof   <pred> ; xs… ; sched                 → 0|1
  par countif <pred> ; xs… ; sched                 → n
  par copyif  <pred> ; xs… ; sched                 → count | out buffer (n zeros initially) at return
  par removeif <pred> ; xs… ; sched                → kept…
  par unique  <W> ; xs… ; sched ; sched ; …        → out…
  par for <kind> <n> [; aux…] ; b e b e …          → array after the chunks ran in that order | tiles 0/1
  par msort <T> ; keys…                            → payload order (payload = input position)
  par merge <T> ; l1… ; l2…                        → merged payloads (l1 payloads 0.., l2 payloads 1000000..)
  par radix <T> <nb> ; xs… ; sched                 → sorted
ops: add | abs (|a|+|b|) | aff (affine maps mod 65521, non-commutative) | max | and
preds: pos (x>0) | odd | nz (x≠0) | lt5 | eq3
-/
namespace ParDrv
open MV.Par Drv

def P : Int := 65521
def opOf : String → Option (Int → Int → Int)
  | "add" => some (· + ·)
  | "abs" => some fun a b => a.natAbs + b.natAbs
  | "aff" => some fun x y =>
      let a1 := x / P; let b1 := x % P; let a2 := y / P; let b2 := y % P
      ((a1 * a2) % P) * P + ((a2 * b1 + b2) % P)
  | "max" => some fun a b => if a < b then b else a
  | "and" => some fun a b => if a != 0 && b != 0 then 1 else 0
  | _ => none

def predOf : String → Option (Int → Bool)
  | "pos" => some (· > 0)
  | "odd" => some fun x => x % 2 != 0
  | "nz" => some (· != 0)
  | "lt5" => some (· < 5)
  | "eq3" => some (· == 3)
  | _ => none

/-- parse one schedule from a token list, returning the rest -/
def parseSched : Nat → List String → Option (Sched × List String)
  | 0, _ => none
  | _ + 1, "L" :: rest => some (.leaf, rest)
  | fuel + 1, "N" :: k :: s :: rest => do
      let k ← k.toNat?
      let st ← (if s == "1" then some true else if s == "0" then some false else none)
      let (l, rest) ← parseSched fuel rest
      let (r, rest) ← parseSched fuel rest
      some (.node k st l r, rest)
  | _, _ => none

def sched? (ts : List String) : Option Sched :=
  match parseSched (ts.length + 1) ts with
  | some (s, []) => some s
  | _ => none

def b2s (b : Bool) : String := if b then "1" else "0"

def parseChunks : List Nat → Option (List (Nat × Nat))
  | [] => some []
  | b :: e :: rest => (parseChunks rest).map ((b, e) :: ·)
  | _ => none

def handle (toks : List String) : String :=
  match splitOnTok ";" toks with
  | ["exscan", op, init, idn] :: xs :: [sc] =>
    match opOf op, init.toInt?, idn.toInt?, ints? xs, sched? sc with
    | some f, some i, some d, some xs, some t =>
      if !t.valid xs.length && !xs.isEmpty then "bad-sched" else joinInt (parExclusiveScan f i d t xs)
    | _, _, _, _, _ => "bad-op"
  | ["inscan", "add"] :: xs :: [sc] =>
    match ints? xs, sched? sc with
    | some xs, some t =>
      if !t.valid xs.length && !xs.isEmpty then "bad-sched" else joinInt (parInclusiveScan (· + ·) 0 t xs)
    | _, _ => "bad-op"
  | ["reduce", op, init] :: xs :: [sc] =>
    match opOf op, init.toInt?, ints? xs, sched? sc with
    | some f, some i, some xs, some t =>
      if !t.valid xs.length && !xs.isEmpty then "bad-sched" else toString (parReduce f i t xs)
    | _, _, _, _ => "bad-op"
  | ["allof", p] :: xs :: [sc] =>
    match predOf p, ints? xs, sched? sc with
    | some p, some xs, some t =>
      if !t.valid xs.length && !xs.isEmpty then "bad-sched" else b2s (parAllOf p t xs)
    | _, _, _ => "bad-op"
  | ["countif", p] :: xs :: [sc] =>
    match predOf p, ints? xs, sched? sc with
    | some p, some xs, some t =>
      if !t.valid xs.length && !xs.isEmpty then "bad-sched" else toString (parCountIf p t xs)
    | _, _, _ => "bad-op"
  | ["copyif", p] :: xs :: [sc] =>
    match predOf p, ints? xs, sched? sc with
    | some p, some xs, some t =>
      if !t.valid xs.length && !xs.isEmpty then "bad-sched" else
      let out := List.replicate xs.length (0 : Int)
      let fin := parCopyIf p t xs out
      s!"{fin.2} | {joinInt fin.1}"
    | _, _, _ => "bad-op"
  | ["removeif", p] :: xs :: [sc] =>
    match predOf p, ints? xs, sched? sc with
    | some p, some xs, some t =>
      if !t.valid xs.length && !xs.isEmpty then "bad-sched" else joinInt (parRemoveIf p t xs)
    | _, _, _ => "bad-op"
  | ["unique", w] :: xs :: scs =>
    match w.toNat?, ints? xs, scs.mapM sched? with
    | some w, some xs, some ts => if w == 0 then "bad-op" else joinInt (parUnique w ts xs)
    | _, _, _ => "bad-op"
  | ["msort", t] :: [ks] =>
    match t.toNat?, ints? ks with
    | some t, some ks =>
      let tagged := ks.zipIdx
      joinNat ((parStableSort t (fun (a b : Int × Nat) => decide (a.1 < b.1)) tagged).map (·.2))
    | _, _ => "bad-op"
  | ["merge", t] :: l1 :: [l2] =>
    match t.toNat?, ints? l1, ints? l2 with
    | some t, some l1, some l2 =>
      let a := l1.zipIdx
      let b := l2.zipIdx.map fun (k, i) => (k, i + 1000000)
      joinNat ((mergeRec t (fun (a b : Int × Nat) => decide (a.1 < b.1)) (a.length + b.length + 1) a b).map (·.2))
    | _, _, _ => "bad-op"
  | ["radix", t, nb] :: xs :: [sc] =>
    match t.toNat?, nb.toNat?, nats? xs, sched? sc with
    | some t, some nb, some xs, some s =>
      if !s.valid xs.length && !xs.isEmpty then "bad-sched" else joinNat (parRadixSort t nb s xs)
    | _, _, _, _ => "bad-op"
  | ("for" :: kind :: n :: []) :: rest =>
    match n.toNat? with
    | none => "bad-op"
    | some n =>
      let (aux, chunkToks) := match rest with
        | [c] => (([] : List String), c)
        | [a, c] => (a, c)
        | _ => ([], ["x"])
      match ints? aux, nats? chunkToks >>= parseChunks with
      | some aux, some cs =>
        let init : Array Int := Array.replicate n (-7)
        let auxA := aux.toArray
        let body : Option (Nat → Array Int → Array Int) := match kind with
          | "fill" => some fun i s => s.setIfInBounds i 42
          | "sequence" => some fun i s => s.setIfInBounds i i
          | "transform" => some fun i s => s.setIfInBounds i (auxA[i]! * 3 + 1)
          | "copy" => some fun i s => s.setIfInBounds i auxA[i]!
          | "gather" => some fun i s => s.setIfInBounds i (1000 + auxA[i]!)      -- input[j] = 1000 + j
          | "scatter" => some fun i s => s.setIfInBounds (auxA[i]!).toNat (1000 + i)
          | _ => none
        match body with
        | none => "bad-op"
        | some body => s!"{joinInt (parFor body cs init).toList} | {b2s (tiles (cs.mergeSort (fun a b => a.1 ≤ b.1)) 0 n)}"
      | _, _ => "bad-op"
  | _ => "bad-op"

end ParDrv
