import MV.Model.Sync
/-
Line protocol for the synchronisation-trace monitors (engine name `sync`), property C06.

    sync <nthreads> <nevents> (<kind> <t> <a> <b>)*

One whole trace per line, as recorded by the MANIFOLD_VERIF hook family `onSync`
(/repo/src/verif_hooks.h) in a multi-threaded client program and renamed by the harness
(harness/c06_threads.cpp: a fresh object id per lifetime; lock = 16*object + lock class,
variable = 16*object + field).  Every event is exactly four numbers:

    kind  event                 a        b
    0     acq t lock mode       lock     mode (0 std::mutex, 1 recursive guard, 2 scoped_lock member, 3 token, 4 uncontended private mutex)
    1     rel t lock            lock     0
    2     rd  t var guard       var      0 = no lock claimed, l+1 = the code relies on lock l
    3     wr  t var guard       var      same
    4     fadd t old n          old      n      (meshIDCounter_.fetch_add(n) returned old)

Lock classes / fields (SyncField): 1 pNode_ (lock: pNodeMutex_), 3 leaf pImpl_ (lock: mutex_),
4 leaf transform_, 5 *impl_ of an op node (lock: the ConcurrentSharedPtr guard), 6 cache_,
7 paths_ (lock: pathsMutex_), 8 CrossSection transform_, 9 tolerance_.  Lock ranks: classes 1
and 7 -> 0, class 5 -> 1, class 3 -> 2.

Output, one line:   hb=<v> ls=<v> ids=<v> once=<v> events=<n>
    hb    `MV.Sync.hbAccept`: ok | race@<index of the first rejected event>
    ls    `MV.Sync.lsAccept`: ok | bad@<index>
    ids   `MV.Sync.idsAccept`: ok | overlap
    once  at most one guarded publication of every `cache_` (variable class 6): ok | twice@<var>
Malformed input: `bad-op`.
-/
namespace SyncDrv
open MV.Sync

def rankOf (l : Nat) : Nat :=
  match l % 16 with
  | 5 => 1
  | 3 => 2
  | _ => 0

def toEv (k t a b : Nat) : Option Ev :=
  match k with
  | 0 => if b ≤ 4 then some (.acq t a b) else none
  | 1 => some (.rel t a)
  | 2 => some (.rd t a b)
  | 3 => some (.wr t a b)
  | 4 => some (.fadd t a b)
  | _ => none

def parseEvents : List Nat → Option (List Ev)
  | [] => some []
  | k :: t :: a :: b :: rest =>
    match toEv k t a b, parseEvents rest with
    | some e, some es => some (e :: es)
    | _, _ => none
  | _ => none

/-- guarded writes of `cache_` variables, counted per variable; the first counted twice -/
def onceBad : AMap Nat → List Ev → Option Nat
  | _, [] => none
  | m, .wr _ x g :: es =>
    if x % 16 = 6 && g ≠ 0 then
      (if m.getD x 0 ≥ 1 then some x else onceBad (m.set x 1) es)
    else onceBad m es
  | m, _ :: es => onceBad m es

def handle (toks : List String) : String :=
  match toks.mapM String.toNat? with
  | some (n :: cnt :: nums) =>
    match parseEvents nums with
    | some tr =>
      if tr.length ≠ cnt then "bad-op" else
      let hb := match hbFirstBad n {} tr with
        | none => "ok"
        | some i => s!"race@{i}"
      let ls := match lsFirstBad rankOf [] 0 tr with
        | none => "ok"
        | some i => s!"bad@{i}"
      let ids := if idsAccept tr then "ok" else "overlap"
      let once := match onceBad [] tr with
        | none => "ok"
        | some x => s!"twice@{x}"
      s!"hb={hb} ls={ls} ids={ids} once={once} events={tr.length}"
    | none => "bad-op"
  | _ => "bad-op"

end SyncDrv
