import MV.Model.Csg
/-
Line protocol for the lazy CSG evaluator model (engine name `csg`).

One whole program per line; items separated by the token `;`:
  leaf <h>                         new user mesh, handle h        (Manifold(pImpl))
  bool <h> <add|sub|int> <a> <b>   h := a op b                    (Manifold::Boolean)
  batch <h> <add|sub|int> <a1>…<ak>  h := BatchBoolean([a1…ak], op), k ≥ 0
  xf <h> <a> <12 ints>             h := a.Transform(m), m row-major 3x4
  drop <h>                         handle destroyed
  force <h> <bit>…                 GetCsgLeafNode() on h with these oracle bits (0/1), one per
                                   non-finalize frame visit in visit order
Handles are natural numbers; a handle may be re-bound (`bool 1 add 1 2` is `h1 += h2`).

Output: one line; segments joined by ` | `; per force:
  fin <op> pos <leaf>:<12 ints> … neg <leaf>:<12 ints> … => <res>      (one per finalize)
  ret <leaf>:<12 ints> bits-used <n>
<leaf> is `<h>` (user mesh created by `leaf <h>`), `r<k>` (k-th mesh created by a finalize) or
`e` (default-constructed empty mesh); <res> is `r<k>` for a new mesh, else `<leaf>:<12 ints>`
of the operand that the C++ returns unchanged.
A force whose bit list does not have exactly the consumed length prints
`oracle-mismatch <h> given <g> used <u>` instead.  Malformed input: `bad-op`.
-/
namespace Csg
open MV.Csg

structure Session where
  st : Store Mat := {}
  handles : List (Nat × Nat) := []
  out : List String := []

def lookup (s : Session) (h : Nat) : Option Nat := s.handles.lookup h

def bind (s : Session) (h n : Nat) : List (Nat × Nat) :=
  (h, n) :: s.handles.filter (fun p => p.1 != h)

def parseOp : String → Option Op
  | "add" => some .add
  | "sub" => some .sub
  | "int" => some .int
  | _ => none

def opName : Op → String
  | .add => "add"
  | .sub => "sub"
  | .int => "int"

def parseNat (t : String) : Option Nat :=
  if t.isEmpty then none else t.toNat?

def parseInt (t : String) : Option Int :=
  if t.startsWith "-" then (parseNat (t.drop 1).toString).map (fun n => - (n : Int))
  else (parseNat t).map (fun n => (n : Int))

def parseBit : String → Option Bool
  | "0" => some false
  | "1" => some true
  | _ => none

def leafName : LeafId → String
  | .orig h => toString h
  | .res k => "r" ++ toString k
  | .empty => "e"

def showLeaf (l : Leaf Mat) : String :=
  leafName l.id ++ ":" ++ " ".intercalate (l.xf.toList.map toString)

def showLeaves (tag : String) (ls : List (Leaf Mat)) : String :=
  " ".intercalate (tag :: ls.map showLeaf)

def showEvent (e : Event Mat) : String :=
  "fin " ++ opName e.op ++ " " ++ showLeaves "pos" e.pos ++ " " ++ showLeaves "neg" e.neg
    ++ " => " ++ (if e.fresh then leafName e.res.id else showLeaf e.res)

/-- `cost` computed bottom-up (impl ids are topologically ordered), linear in the store size
even when shared sub-DAGs make the tree unfolding exponential.  The evaluator stops as soon as
its stack is empty, and `MV.Csg.toLeaf_fuel_mono` shows the result does not depend on the fuel
once `ok` is reported, so this is exactly `MV.Csg.force`. -/
def costTable (s : Store Mat) : List Nat :=
  s.impls.foldl (fun tbl ch =>
    tbl ++ [2 + (ch.map (fun c =>
      match s.nodes[c]? with
      | some (.op i _ _ _) => tbl.getD i 0
      | _ => 0)).sum]) []

def fuelFor (s : Store Mat) (n : Nat) : Nat :=
  match s.nodes[n]? with
  | some (.op i _ _ _) => (costTable s).getD i 0
  | _ => 0

/-- `Manifold::GetCsgLeafNode` -/
def forceFast (s : Store Mat) (n : Nat) (orc : List Bool) : EvalResult Mat :=
  if s.isLeaf n then
    { st := s, ret := n, evs := [], orc := orc, used := 0, ok := true, ub := false }
  else toLeaf s n orc (fuelFor s n)

/-- split a token list on `;` -/
def splitItems : List String → List String → List (List String)
  | [], cur => [cur.reverse]
  | ";" :: ts, cur => cur.reverse :: splitItems ts []
  | t :: ts, cur => splitItems ts (t :: cur)

def execItem (s : Session) (item : List String) : Option Session :=
  match item with
  | ["leaf", h] => do
    let h ← parseNat h
    let (st, n) := s.st.newLeaf h
    some { s with st := st, handles := bind s h n }
  | ["bool", h, o, a, b] => do
    let h ← parseNat h
    let o ← parseOp o
    let a ← (parseNat a).bind (lookup s)
    let b ← (parseNat b).bind (lookup s)
    let (st, n) := s.st.boolean a b o
    some { s with st := st, handles := bind s h n }
  | "batch" :: h :: o :: as => do
    let h ← parseNat h
    let o ← parseOp o
    let as ← as.mapM (fun a => (parseNat a).bind (lookup s))
    let (st, n) := s.st.batch as o
    some { s with st := st, handles := bind s h n }
  | "xf" :: h :: a :: ms => do
    let h ← parseNat h
    let a ← (parseNat a).bind (lookup s)
    let m ← (← ms.mapM parseInt) |> Mat.ofList?
    let (st, n) := s.st.transform a m
    some { s with st := st, handles := bind s h n }
  | ["drop", h] => do
    let h ← parseNat h
    let _ ← lookup s h
    some { s with handles := s.handles.filter (fun p => p.1 != h) }
  | "force" :: h :: bits => do
    let h ← parseNat h
    let n ← lookup s h
    let bits ← bits.mapM parseBit
    let r := forceFast s.st n bits
    if !r.ok || r.ub then
      some { s with out := s.out ++ ["internal-error " ++ toString h] } else
    let l ← r.st.leafAt? r.ret
    if r.used != bits.length then
      -- the model state is still advanced so that later items stay meaningful
      some { st := r.st, handles := bind s h r.ret,
             out := s.out ++ ["oracle-mismatch " ++ toString h ++ " given "
                              ++ toString bits.length ++ " used " ++ toString r.used] }
    else
      some { st := r.st, handles := bind s h r.ret,
             out := s.out ++ r.evs.map showEvent
                    ++ ["ret " ++ showLeaf l ++ " bits-used " ++ toString r.used] }
  | _ => none

def execItems (s : Session) : List (List String) → Option Session
  | [] => some s
  | it :: its => (execItem s it).bind (fun s' => execItems s' its)

def handle (toks : List String) : String :=
  match execItems {} (splitItems toks []) with
  | some s => " | ".intercalate s.out
  | none => "bad-op"

end Csg
