/-
Line protocol of the `collider` engine (model: MV/Model/Collider.lean).

Input: one line, tokens separated by single spaces; the first token `collider` is consumed by
Driver/Main.lean.  `;` is a token of its own.  All numbers are decimal integers.  Codes must be
`< 2^32`; they are used as given (the caller sorts).  A box is 6 integers
`minx miny minz maxx maxy maxz`, a point 3 integers `x y z`.  `<order>` is the arrival order
of the leaves in `BuildInternalBoxes` (a list of leaf indices; omitted = `0 1 … n-1`).

  tree <n> <code_0> … <code_{n-1}>
      → `<c1_0> <c2_0> … <c1_{n-2}> <c2_{n-2}> ; <p_0> … <p_{2n-2}>`
        the pairs of `internalChildren_` and the array `nodeParent_` exactly as the C++ arrays
        read after the constructor (`-1` = unset).
  treeord <n> <codes…> ; <perm of 0..n-2>
      → same, with the `for_each_n` over the internal nodes executed in the given order.
  boxes <n> <codes…> ; <6n ints: leaf boxes> [; <order>]
      → the boxes of the internal nodes 1,3,…,2n-3 (6 ints each) after `UpdateBoxes`;
        `bad-read` if an unwritten box was read or an index left an array.
  query <n> <codes…> ; <6n ints> ; <self 0|1> ; <6 ints per query box …> [; <order>]
      → for each query (query index = position, used when self = 1) `<k> <leaf_1> … <leaf_k>`:
        the number of recorded collisions and the leaf indices in the order the traversal
        records them; groups separated by ` ; `.  `overflow` replaces a group if the model's
        stack/fuel guard fires.
  pquery <n> <codes…> ; <6n ints> ; <self 0|1> ; <3 ints per query point …> [; <order>]
      → same for `DoesOverlap(vec3)`.
  tquery <n> <codes…> ; <6n ints> ; <12 ints: mat3x4 row-major> ; <self> ; <query boxes …>
      → `Collider::Transform` applied to all node boxes, then `query`; `bad-op` if the matrix is
        not axis-aligned.
  uquery <n> <codes…> ; <6n ints> ; <6n ints: new leaf boxes> ; <self> ; <query boxes …> [; <order>]
      → build, `UpdateBoxes(new)` with the same order, then `query`.
  check <n> <codes…>
      → `ok` if `wfTree` accepts the arrays produced by `createRadixTree`, else `bad`.
  checkboxes <n> <codes…> ; <6n ints> [; <order>]
      → `ok` if wfTree and unionBoxes hold after the build, else `bad`.
  clz <x>  → clz32 x          plen <n> <codes…> ; <i> <j> → PrefixLength(i,j)

2-D broad phase and polygon k-d tree (model: MV/Model/Broad2.lean).  A 2-D box is 4 integers
`minx miny maxx maxy`, a point 2 integers `x y` (its `idx` is its position in the request), a
rectangle 4 integers `minx miny maxx maxy`.  `<skip>` is a list of ordered index pairs `a b`
for which `SharedEndpointSafelySkippable(edges[a], edges[b], …)` is true (omitted = never).

  xsweep <n> ; <4n ints> [; <skip>]
      → `<k> <first_1> <second_1> … <first_k> <second_k>`: the `pairs` emitted by
        `CollectIntersectionPairs` without a BVH (the x-sorted sweep), in emission order.
  bvh2 <n> <code_0> … <code_{n-1}> ; <4n ints>
      → `<leafToOrig (n)> ; <c1 c2 per internal node (n-1 pairs)> ; <4 ints per node (2n-1 boxes)>`
        the three arrays of the `BVH` returned by `BVHBuildFromBoxes` (codes are per ORIGINAL box
        index, unsorted: `MortonCode2(boxes[i].Center(), bbox)`); `bad-read` if the model's
        guard fires.
  bvh2query <n> <codes…> ; <4n ints> ; <4 ints per query box …>
      → for each query `<k> <leaf_1> … <leaf_k>` (leaf indices, NOT mapped through leafToOrig) in
        the order `BVHCollisions` records them; groups separated by ` ; `.
  bvh2pairs <n> <codes…> ; <4n ints> [; <skip>]
      → as `xsweep`, for `CollectIntersectionPairs` with the BVH built from the same boxes.
  kdbuild <n> ; <2n ints>
      → the `idx` of the points in array order after `BuildTwoDTree`.
  kdquery <n> ; <2n ints> ; <4 ints per rectangle …>
      → `BuildTwoDTree`, then for each rectangle `<k> <idx_1> … <idx_k>`: the points reported by
        `QueryTwoDTree` in report order; groups separated by ` ; `; `overflow` if the guard fires.
Anything malformed → `bad-op`.  Fewer than two leaves: as in the C++ no collision is ever
reported (`internalChildren_` is empty), `tree` prints an empty children list.
-/
import MV.Model.Collider
import MV.Model.Broad2

namespace Collider
open MV.Collider

def splitSemi (toks : List String) : List (List String) :=
  let rec go : List String → List String → List (List String) → List (List String)
    | [], cur, acc => (cur.reverse :: acc).reverse
    | t :: ts, cur, acc => if t == ";" then go ts [] (cur.reverse :: acc) else go ts (t :: cur) acc
  go toks [] []

def ints (toks : List String) : Option (List Int) := toks.mapM String.toInt?
def nats (toks : List String) : Option (List Nat) := toks.mapM String.toNat?

def showInts (l : List Int) : String := " ".intercalate (l.map toString)

def parseCodes (toks : List String) : Option (Array Nat) := do
  let l ← nats toks
  match l with
  | [] => none
  | n :: cs =>
    if cs.length != n then none
    else if cs.all (· < 2 ^ 32) then some cs.toArray else none

def parseBoxes : List Int → Option (List Box)
  | [] => some []
  | a :: b :: c :: d :: e :: f :: rest => do
    let r ← parseBoxes rest
    some (⟨⟨a, b, c⟩, ⟨d, e, f⟩⟩ :: r)
  | _ => none

def parsePoints : List Int → Option (List Vec3)
  | [] => some []
  | a :: b :: c :: rest => do
    let r ← parsePoints rest
    some (⟨a, b, c⟩ :: r)
  | _ => none

def parseLeafBoxes (n : Nat) (toks : List String) : Option (Array Box) := do
  let l ← ints toks
  let bs ← parseBoxes l
  if bs.length = n then some bs.toArray else none

def parseOrder (n : Nat) (sec : Option (List String)) : Option (List Nat) :=
  match sec with
  | none => some (List.range n)
  | some toks => do
    let l ← nats toks
    if l.length = n ∧ (List.range n).all (fun i => l.contains i) then some l else none

def parseSelf : List String → Option Bool
  | ["0"] => some false
  | ["1"] => some true
  | _ => none

def showBox (b : Box) : String :=
  showInts [b.min.x, b.min.y, b.min.z, b.max.x, b.max.y, b.max.z]

def showTree (t : Array (Int × Int) × Array Int) : String :=
  showInts (t.1.toList.flatMap fun p => [p.1, p.2]) ++ " ; " ++ showInts t.2.toList

/-- build the collider; `none` = `bad-read` -/
def build (codes : Array Nat) (leafBB : Array Box) (order : List Nat) :
    Array (Int × Int) × Array Int × Option (Array Box) :=
  let t := createRadixTree codes
  let st := updateBoxes t.2 t.1 leafBB order
  (t.1, t.2, if st.ok && st.boxes.all Option.isSome then some st.final else none)

def showHits : Option (Array Nat) → String
  | none => "overflow"
  | some a => " ".intercalate (toString a.size :: a.toList.map toString)

def runQueries (children : Array (Int × Int)) (boxes : Array Box) (self : Bool)
    (ovs : List (Box → Bool)) : String :=
  let rec go : List (Box → Bool) → Nat → List String
    | [], _ => []
    | ov :: rest, i => showHits (findCollision children boxes ov self i) :: go rest (i + 1)
  " ; ".intercalate (go ovs 0)

/-! ## 2-D broad phase / k-d tree (MV/Model/Broad2.lean) -/
section broad2
open MV.Broad2

def parseBoxes2 : List Int → Option (List Box2)
  | [] => some []
  | a :: b :: c :: d :: rest => do
    let r ← parseBoxes2 rest
    some (⟨a, b, c, d⟩ :: r)
  | _ => none

def parseRects : List Int → Option (List Rect)
  | [] => some []
  | a :: b :: c :: d :: rest => do
    let r ← parseRects rest
    some (⟨a, b, c, d⟩ :: r)
  | _ => none

def parsePts : Nat → List Int → Option (List PolyVert)
  | _, [] => some []
  | i, a :: b :: rest => do
    let r ← parsePts (i + 1) rest
    some (⟨a, b, i⟩ :: r)
  | _, _ => none

def parseCount : List String → Option Nat
  | [n] => n.toNat?
  | _ => none

def parseLeafBoxes2 (n : Nat) (toks : List String) : Option (Array Box2) := do
  let l ← ints toks
  let bs ← parseBoxes2 l
  if bs.length = n then some bs.toArray else none

/-- the skip table as adjacency lists; `none` if malformed or out of range -/
def parseSkip (n : Nat) (sec : Option (List String)) : Option (Array (Array Nat)) :=
  match sec with
  | none => some (Array.replicate n #[])
  | some toks => do
    let l ← nats toks
    let rec go : List Nat → Array (Array Nat) → Option (Array (Array Nat))
      | [], acc => some acc
      | a :: b :: rest, acc =>
        if a < n ∧ b < n then go rest (acc.modify a (fun s => s.push b)) else none
      | _, _ => none
    go l (Array.replicate n #[])

def skipFn (t : Array (Array Nat)) (a b : Nat) : Bool := (t.getD a #[]).contains b

def showPairs (l : List (Nat × Nat)) : String :=
  " ".intercalate (toString l.length :: l.flatMap fun p => [toString p.1, toString p.2])

def showBox2 (b : Box2) : String := showInts [b.minX, b.minY, b.maxX, b.maxY]

def showBVH (b : BVH) : String :=
  let pre (l : List String) : String := String.join (l.map fun x => " " ++ x)
  " ".intercalate (b.leafToOrig.toList.map toString) ++ " ;" ++
  pre (b.internalChildren.toList.flatMap fun p => [toString p.1, toString p.2]) ++ " ;" ++
  pre (b.nodeBBox.toList.map showBox2)

def showIdx : Option (List PolyVert) → String
  | none => "overflow"
  | some l => " ".intercalate (toString l.length :: l.map fun p => toString p.idx)

def handle2 (toks : List String) : Option String :=
  match toks with
  | cmd :: rest =>
    if cmd ∈ ["xsweep", "bvh2", "bvh2query", "bvh2pairs", "kdbuild", "kdquery"] then
      some <|
      match cmd, splitSemi rest with
      | "xsweep", nsec :: bsec :: ssec =>
        match parseCount nsec with
        | none => "bad-op"
        | some n =>
          match parseLeafBoxes2 n bsec, parseSkip n ssec.head?, decide (ssec.length ≤ 1) with
          | some bb, some sk, true => showPairs (xsweepPairs bb (skipFn sk))
          | _, _, _ => "bad-op"
      | "kdbuild", [nsec, psec] =>
        match parseCount nsec, (ints psec).bind (parsePts 0) with
        | some n, some pts =>
          if pts.length = n then " ".intercalate ((buildTwoDTree pts).map fun p => toString p.idx)
          else "bad-op"
        | _, _ => "bad-op"
      | "kdquery", [nsec, psec, rsec] =>
        match parseCount nsec, (ints psec).bind (parsePts 0), (ints rsec).bind parseRects with
        | some n, some pts, some rs =>
          if pts.length = n then
            let t := buildTwoDTree pts
            " ; ".intercalate (rs.map fun r => showIdx (queryTwoDTree t r))
          else "bad-op"
        | _, _, _ => "bad-op"
      | _, csec :: more =>
        match parseCodes csec with
        | none => "bad-op"
        | some codes =>
          let n := codes.size
          match cmd, more with
          | "bvh2", [bsec] =>
            match parseLeafBoxes2 n bsec with
            | some bb => match bvh2Build codes bb with
              | some b => showBVH b
              | none => "bad-read"
            | none => "bad-op"
          | "bvh2query", [bsec, qsec] =>
            match parseLeafBoxes2 n bsec, (ints qsec).bind parseBoxes2 with
            | some bb, some qs => match bvh2Build codes bb with
              | some b => " ; ".intercalate (qs.map fun q => showHits (bvh2Query b q))
              | none => "bad-read"
            | _, _ => "bad-op"
          | "bvh2pairs", bsec :: ssec =>
            match parseLeafBoxes2 n bsec, parseSkip n ssec.head?, decide (ssec.length ≤ 1) with
            | some bb, some sk, true => match bvh2Build codes bb with
              | some b => match bvh2Pairs b bb (skipFn sk) with
                | some ps => showPairs ps
                | none => "overflow"
              | none => "bad-read"
            | _, _, _ => "bad-op"
          | _, _ => "bad-op"
      | _, _ => "bad-op"
    else none
  | _ => none

end broad2

def handle (toks : List String) : String :=
  match handle2 toks with
  | some s => s
  | none =>
  match toks with
  | ["clz", x] => match x.toNat? with
    | some v => if v < 2 ^ 32 then toString (clz32 v) else "bad-op"
    | none => "bad-op"
  | "tree" :: rest =>
    match parseCodes rest with
    | some codes => showTree (createRadixTree codes)
    | none => "bad-op"
  | "check" :: rest =>
    match parseCodes rest with
    | some codes =>
      let t := createRadixTree codes
      if wfTree t.1 t.2 codes.size then "ok" else "bad"
    | none => "bad-op"
  | cmd :: rest =>
    let secs := splitSemi rest
    match secs with
    | [] => "bad-op"
    | csec :: more =>
      match parseCodes csec with
      | none => "bad-op"
      | some codes =>
        let n := codes.size
        match cmd, more with
        | "plen", [[i, j]] =>
          match i.toInt?, j.toInt? with
          | some i, some j =>
            if 0 ≤ i ∧ i < n then toString (prefixLength codes i j) else "bad-op"
          | _, _ => "bad-op"
        | "treeord", [ord] =>
          match parseOrder (n - 1) (some ord) with
          | some o => showTree (createRadixTreeOrd codes o)
          | none => "bad-op"
        | "boxes", bsec :: osec =>
          match parseLeafBoxes n bsec, parseOrder n osec.head?, decide (osec.length ≤ 1) with
          | some bb, some o, true =>
            match build codes bb o with
            | (_, _, some boxes) =>
              " ".intercalate ((List.range (n - 1)).map fun k => showBox (boxes.getD (2 * k + 1) default))
            | _ => "bad-read"
          | _, _, _ => "bad-op"
        | "checkboxes", bsec :: osec =>
          match parseLeafBoxes n bsec, parseOrder n osec.head?, decide (osec.length ≤ 1) with
          | some bb, some o, true =>
            match build codes bb o with
            | (ch, par, some boxes) =>
              if wfTree ch par n && unionBoxes ch boxes bb n then "ok" else "bad"
            | _ => "bad"
          | _, _, _ => "bad-op"
        | "query", bsec :: ssec :: qsec :: osec =>
          match parseLeafBoxes n bsec, parseSelf ssec, (ints qsec).bind parseBoxes,
                parseOrder n osec.head?, decide (osec.length ≤ 1) with
          | some bb, some self, some qs, some o, true =>
            match build codes bb o with
            | (ch, _, some boxes) =>
              runQueries ch boxes self (qs.map fun q => fun b => doesOverlapBox b q)
            | _ => "bad-read"
          | _, _, _, _, _ => "bad-op"
        | "pquery", bsec :: ssec :: qsec :: osec =>
          match parseLeafBoxes n bsec, parseSelf ssec, (ints qsec).bind parsePoints,
                parseOrder n osec.head?, decide (osec.length ≤ 1) with
          | some bb, some self, some ps, some o, true =>
            match build codes bb o with
            | (ch, _, some boxes) =>
              runQueries ch boxes self (ps.map fun p => fun b => doesOverlapPoint b p)
            | _ => "bad-read"
          | _, _, _, _, _ => "bad-op"
        | "tquery", [bsec, msec, ssec, qsec] =>
          match parseLeafBoxes n bsec, ints msec, parseSelf ssec, (ints qsec).bind parseBoxes with
          | some bb, some [a0, a1, a2, a3, b0, b1, b2, b3, c0, c1, c2, c3], some self, some qs =>
            let m : Mat34 := ⟨⟨a0, a1, a2, a3⟩, ⟨b0, b1, b2, b3⟩, ⟨c0, c1, c2, c3⟩⟩
            if m.isAxisAligned then
              match build codes bb (List.range n) with
              | (ch, _, some boxes) =>
                runQueries ch (transformBoxes m boxes) self (qs.map fun q => fun b => doesOverlapBox b q)
              | _ => "bad-read"
            else "bad-op"
          | _, _, _, _ => "bad-op"
        | "uquery", bsec :: usec :: ssec :: qsec :: osec =>
          match parseLeafBoxes n bsec, parseLeafBoxes n usec, parseSelf ssec,
                (ints qsec).bind parseBoxes, parseOrder n osec.head?, decide (osec.length ≤ 1) with
          | some bb, some ub, some self, some qs, some o, true =>
            match build codes bb o with
            | (ch, par, some _) =>
              let st := updateBoxes par ch ub o
              if st.ok && st.boxes.all Option.isSome then
                runQueries ch st.final self (qs.map fun q => fun b => doesOverlapBox b q)
              else "bad-read"
            | _ => "bad-read"
          | _, _, _, _, _, _ => "bad-op"
        | _, _ => "bad-op"
  | _ => "bad-op"

end Collider
