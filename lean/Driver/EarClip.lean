import MV.Model.EarClip
/-!
Line protocol for the ear-clipping model (engine name `earclip`, already consumed by
`Driver/Main.lean`).  Items are separated by the single token `;`.

  earclip poly <i0> <i1> … ; poly … ; ops ; c <v> ; j <s> <c> ; …
      → tris <a> <b> <c> , <a> <b> <c> , … | rings <done|open> | net <ok|bad> | paired <ok|bad> | skipped <d>
  earclip convex ; poly <i0> … ; poly …
      → tris <a> <b> <c> , … | net <ok|bad> | paired <ok|bad>

`v`, `s`, `c` are 0-based indices into `polygon_` in push_back order: contour verts in input
order, then for each join its `newStart`, `newConnector`.

Errors: `bad-op` for a malformed line (unknown item, non-numeric token, empty `poly`, missing
`ops`, for `convex` a contour with fewer than 3 verts); `bad-op <k>` when the `k`-th op (0-based)
violates the call-site guard of the C++ (`opOk`: index out of range, clipped vert, `clip` on a
ring with `left == right`, `join` with `start->right == connector`).
-/
namespace EarClip
open MV.EarClip

def splitItems (toks : List String) : List (List String) :=
  let rec go (cur : List String) (acc : List (List String)) : List String → List (List String)
    | [] => (cur.reverse :: acc).reverse
    | t :: ts => if t == ";" then go [] (cur.reverse :: acc) ts else go (t :: cur) acc ts
  go [] [] toks

def parseNat (s : String) : Option Nat :=
  if s.isEmpty || s.length > 9 then none else
  if s.all Char.isDigit then s.toNat? else none

def parseNats (ts : List String) : Option (List Nat) := ts.mapM parseNat

def parsePoly : List String → Option (List Nat)
  | "poly" :: rest => match parseNats rest with
    | some (i :: is) => some (i :: is)
    | _ => none
  | _ => none

def parseOp : List String → Option Op
  | ["c", v] => (parseNat v).map Op.clip
  | ["j", s, c] => do
    let s ← parseNat s
    let c ← parseNat c
    pure (Op.join s c)
  | _ => none

def fmtTris (ts : List Tri) : String :=
  "tris" ++ (if ts.isEmpty then "" else " ") ++
    " , ".intercalate (ts.map fun t => s!"{t.1} {t.2.1} {t.2.2}")

def okBad (b : Bool) : String := if b then "ok" else "bad"

def checks (polys : List (List Nat)) (ts : List Tri) : String :=
  " | net " ++ okBad (netEqCheck (triEdges ts) (contourEdges polys)) ++
  " | paired " ++ okBad (halfedgeTriangulation polys ts).finalizeOk

def handleConvex (items : List (List String)) : String :=
  match items.mapM parsePoly with
  | none => "bad-op"
  | some polys =>
    if polys.any (fun p => p.length < 3) then "bad-op" else
    let ts := triangulateConvex polys
    fmtTris ts ++ checks polys ts

def handleOps (items : List (List String)) : String :=
  let polyItems := items.takeWhile (· != ["ops"])
  match items.dropWhile (· != ["ops"]) with
  | [] => "bad-op"
  | _ :: opItems =>
    match polyItems.mapM parsePoly, opItems.mapM parseOp with
    | some polys, some ops =>
      match runChecked (initState polys) ops with
      | .error k => s!"bad-op {k}"
      | .ok s =>
        fmtTris s.tris ++ " | rings " ++ (if ringsDone s then "done" else "open") ++
          checks polys s.tris ++ s!" | skipped {s.skipped}"
    | _, _ => "bad-op"

def handle (toks : List String) : String :=
  match splitItems toks with
  | ["convex"] :: items => handleConvex items
  | items => handleOps items

end EarClip
