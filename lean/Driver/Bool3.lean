import MV.Model.Bool3
import Driver.Util
/-!
Line protocol for engine `bool3` (property C02).  All floating-point values travel as IEEE-754
bit patterns: 16 lower-case hex digits of the `uint64`; any NaN (and the model's `none`,
the C++ `NAN` "no overlap" marker) is printed as `nan`.  The kernels run are the polymorphic
definitions of `MV/Model/Bool3.lean` instantiated at `Float`.

  bool3 selftest <a> <b> <c>     -> <a*b+c> <a/b> <|a-c|> <-a> <a<b> <a==b> <isfinite(a/b)>
  bool3 shadows <p> <q> <dir>    -> 0 | 1
  bool3 interp <aL.x aL.y aL.z> <aR.x aR.y aR.z> <x>            -> <y> <z>
  bool3 isect <aL xyz> <aR xyz> <bL xyz> <bR xyz>                -> <x> <y> <z> <w>
  bool3 incl <add|subtract|intersect> <wP> <wQ>                  -> <incl> <keepP wQ> <keepQ wP>
  bool3 ray <op> (P|Q)(+|-) …                                    -> <wP> <wQ> <wR>   (rayRun)
  bool3 kern <expandP:0|1> M <nv> <nt> <3nv pos> <3nv vertNormal> <3nt faceNormal>
        <3nt halfedge start> <3nt halfedge pair>  M … (mesh of Q, same layout)  Q <queries>
     queries (4 tokens each; `f` = forward flag: A = f ? P : Q, B = f ? Q : P)
        a f v h    Shadow01<expandP,f>(v, h, B.Start(h), B.End(h), A, B)   -> s y z
        b f v t    Kernel02<expandP,f>{A,B}(v, t)                          -> s z
        c 1 p1 q1  Kernel11<expandP>{P,Q}(p1, …, q1, …)                    -> s x y z w
        d f a1 t   Kernel12<expandP,f>{A,B}(a1, t)                         -> x12 x y z
     answers are concatenated in query order.  When a kernel would read its second
     "left/right" slot without having filled it (`s ≠ 0 ∧ k < 2`, a DEBUG_ASSERT in the C++)
     the token `K<2` is appended to that answer.
Malformed input -> `bad-op`.
-/
namespace Bool3Drv
open MV.Bool3

def hexVal (c : Char) : Option Nat :=
  if '0' ≤ c ∧ c ≤ '9' then some (c.toNat - '0'.toNat)
  else if 'a' ≤ c ∧ c ≤ 'f' then some (c.toNat - 'a'.toNat + 10)
  else none

def parseHex (s : String) : Option Nat :=
  if s.length != 16 then none
  else s.toList.foldlM (fun acc c => (hexVal c).map (fun d => acc * 16 + d)) 0

def parseF (s : String) : Option Float :=
  if s == "nan" then some (0.0 / 0.0) else (parseHex s).map (fun n => Float.ofBits n.toUInt64)

def hexDigit (n : Nat) : Char :=
  if n < 10 then Char.ofNat ('0'.toNat + n) else Char.ofNat ('a'.toNat + n - 10)

def showF (x : Float) : String :=
  if x.isNaN then "nan"
  else
    let n := x.toBits.toNat
    String.ofList ((List.range 16).map fun i => hexDigit ((n >>> (4 * (15 - i))) % 16))

def showO (x : Option Float) : String := match x with | some v => showF v | none => "nan"
def showB (b : Bool) : String := if b then "1" else "0"

def floats? (ts : List String) : Option (List Float) := ts.mapM parseF

def v3s? (fs : List Float) : Option (Array (V3 Float)) :=
  let rec go : List Float → Array (V3 Float) → Option (Array (V3 Float))
    | [], acc => some acc
    | x :: y :: z :: r, acc => go r (acc.push ⟨x, y, z⟩)
    | _, _ => none
  go fs #[]

/-- parse `M nv nt …`; returns the mesh and the remaining tokens -/
def parseMesh (ts : List String) : Option (KMesh Float × List String) :=
  match ts with
  | "M" :: nvS :: ntS :: rest => do
    let nv ← nvS.toNat?
    let nt ← ntS.toNat?
    if rest.length < 6 * nv + 3 * nt + 6 * nt then none
    else
      let pos ← floats? (rest.take (3 * nv)) >>= v3s?
      let r1 := rest.drop (3 * nv)
      let vn ← floats? (r1.take (3 * nv)) >>= v3s?
      let r2 := r1.drop (3 * nv)
      let fn ← floats? (r2.take (3 * nt)) >>= v3s?
      let r3 := r2.drop (3 * nt)
      let st ← Drv.nats? (r3.take (3 * nt))
      let r4 := r3.drop (3 * nt)
      let pr ← Drv.nats? (r4.take (3 * nt))
      let m : KMesh Float := ⟨pos, vn, fn, st.toArray, pr.toArray⟩
      if m.valid then some (m, r4.drop (3 * nt)) else none
  | _ => none

def kflag (s : Int) (k : Nat) : String := if s != 0 && k < 2 then " K<2" else ""

def runQuery (e : Bool) (P Q : KMesh Float) (kind fS iS jS : String) : Option String := do
  let f ← (if fS == "1" then some true else if fS == "0" then some false else none)
  let i ← iS.toNat?
  let j ← jS.toNat?
  let A := if f then P else Q
  let B := if f then Q else P
  match kind with
  | "a" =>
    if i < A.vertPos.size && j < B.start.size then
      let r := shadow01 e f i j (B.startOf j) (B.endOf j) A B
      some s!"{r.1} {showO (r.2.map (·.x))} {showO (r.2.map (·.y))}"
    else none
  | "b" =>
    if i < A.vertPos.size && j < B.faceNormal.size then
      let r := kernel02 e f i j (loadFaceEdges B j) A B
      some s!"{r.1} {showO r.2.1}{kflag r.1 r.2.2}"
    else none
  | "c" =>
    if f && i < P.start.size && j < Q.start.size then
      let r := kernel11 e i (P.startOf i) (P.endOf i) j (Q.startOf j) (Q.endOf j) P Q
      let v := r.2.1
      some s!"{r.1} {showO (v.map (·.x))} {showO (v.map (·.y))} {showO (v.map (·.z))} {showO (v.map (·.w))}{kflag r.1 r.2.2}"
    else none
  | "d" =>
    if i < A.start.size && j < B.faceNormal.size then
      let r := kernel12 e f i j A B
      let v := r.2.1
      some s!"{r.1} {showO (v.map (·.x))} {showO (v.map (·.y))} {showO (v.map (·.z))}{kflag r.1 r.2.2}"
    else none
  | _ => none

def runQueries (e : Bool) (P Q : KMesh Float) : List String → List String → Option (List String)
  | [], acc => some acc.reverse
  | kind :: f :: i :: j :: rest, acc => do
    let a ← runQuery e P Q kind f i j
    runQueries e P Q rest (a :: acc)
  | _, _ => none

def parseOp (s : String) : Option OpType :=
  match s with
  | "add" => some .add
  | "subtract" => some .subtract
  | "intersect" => some .intersect
  | _ => none

def parseCrossing (s : String) : Option Crossing :=
  match s with
  | "P+" => some ⟨.P, 1⟩
  | "P-" => some ⟨.P, -1⟩
  | "Q+" => some ⟨.Q, 1⟩
  | "Q-" => some ⟨.Q, -1⟩
  | _ => none

def handle (toks : List String) : String :=
  let r : Option String :=
    match toks with
    | ["selftest", a, b, c] => do
      let a ← parseF a; let b ← parseF b; let c ← parseF c
      let S : Scalar Float := inferInstance
      some (" ".intercalate [showF (S.add (S.mul a b) c), showF (S.div a b), showF (S.abs (S.sub a c)),
        showF (S.neg a), showB (S.lt a b), showB (S.beq a b), showB (S.isFinite (S.div a b))])
    | ["shadows", p, q, d] => do
      let p ← parseF p; let q ← parseF q; let d ← parseF d
      some (showB (shadows p q d))
    | "interp" :: rest => do
      let fs ← floats? rest
      match fs with
      | [a, b, c, d, e, f, x] =>
        let r := interpolate (⟨a, b, c⟩ : V3 Float) ⟨d, e, f⟩ x
        some s!"{showF r.x} {showF r.y}"
      | _ => none
    | "isect" :: rest => do
      let fs ← floats? rest
      match fs with
      | [a, b, c, d, e, f, g, h, i, j, k, l] =>
        let r := intersect (⟨a, b, c⟩ : V3 Float) ⟨d, e, f⟩ ⟨g, h, i⟩ ⟨j, k, l⟩
        some s!"{showF r.x} {showF r.y} {showF r.z} {showF r.w}"
      | _ => none
    | ["incl", op, wP, wQ] => do
      let op ← parseOp op; let wP ← wP.toInt?; let wQ ← wQ.toInt?
      some s!"{incl op wP wQ} {keepP op wQ} {keepQ op wP}"
    | "ray" :: op :: cs => do
      let op ← parseOp op
      let cs ← cs.mapM parseCrossing
      let r := rayRun op cs
      some s!"{r.wP} {r.wQ} {r.wR}"
    | "kern" :: eS :: rest => do
      let e ← (if eS == "1" then some true else if eS == "0" then some false else none)
      let (P, r1) ← parseMesh rest
      let (Q, r2) ← parseMesh r1
      match r2 with
      | "Q" :: qs => (runQueries e P Q qs []).map (" ".intercalate ·)
      | _ => none
    | _ => none
  r.getD "bad-op"

end Bool3Drv
