import MV.Model.Measure
import Driver.Bool3
import Driver.Util
/-!
Line protocol for engine `measure` (property C18).  Floating-point values travel as IEEE-754 bit
patterns (16 lower-case hex digits; any NaN is `nan`), exactly as for engine `bool3`.  The
definitions run are those of `MV/Model/Measure.lean` instantiated at `Float`
(`sqrt := Float.sqrt`, the C `sqrt`).

  measure M <mesh> [M <mesh2>] Q <query>*      meshes in the layout of `bool3 kern`:
        M <nv> <nt> <3nv pos> <3nv vertNormal> <3nt faceNormal> <3nt halfedge start> <3nt halfedge pair>
     queries, answers joined by ` | ` in query order
        vol                        -> <Volume()>
        area                       -> <SurfaceArea()>
        bbox                       -> <min.x> <min.y> <min.z> <max.x> <max.y> <max.z>   (CalculateBBox of vertPos)
        ray <o xyz> <e xyz>        -> <n> (<tri> <t> <x> <y> <z>)*      every triangle a candidate; sorted by t (stable)
        wind <n> (<x> <y> <z>)*    -> <w_0> … <w_{n-1}>                 every triangle a candidate; bbox from vertPos
        slice <h>                  -> <ok|BAD> <nloops> (<len> (<x> <y>)*)*     start triangle = smallest remaining
        gap <L>                    -> <Impl::MinGap(mesh2, L)> over ALL pairs of triangles (needs mesh2)
        counts                     -> <NumVert> <NumEdge> <NumTri> <Genus>
  measure tritri <18 floats: p0 p1 p2 q0 q1 q2>                -> <DistanceTriangleTriangleSquared>
  measure decomp <nV> <nT> <3nT vertex indices>                 -> <k> F <label of face 0> … | fuel
Malformed input -> `bad-op`.
-/
namespace MeasureDrv
open MV.Bool3 MV.Measure Bool3Drv

def fsqrt (x : Float) : Float := x.sqrt

def v3? (ts : List String) : Option (V3 Float) := do
  match ← floats? ts with
  | [a, b, c] => some ⟨a, b, c⟩
  | _ => none

def showV3 (v : V3 Float) : String := s!"{showF v.x} {showF v.y} {showF v.z}"

def trisOf (m : KMesh Float) : List MV.Mesh.Tri :=
  (List.range (numTri m)).map fun t => (m.startOf (3 * t), m.startOf (3 * t + 1), m.startOf (3 * t + 2))

/-- run one query; returns the answer and the remaining tokens -/
def runQuery (m : KMesh Float) (m2 : Option (KMesh Float)) : List String → Option (String × List String)
  | "vol" :: r => some (showF (volume m), r)
  | "area" :: r => some (showF (surfaceArea fsqrt m), r)
  | "bbox" :: r =>
    let bb := calcBBox m.vertPos.toList
    some (s!"{showV3 bb.1} {showV3 bb.2}", r)
  | "ray" :: r => do
    let o ← v3? (r.take 3)
    let e ← v3? ((r.drop 3).take 3)
    let hs := rayCast m o e
    let body := hs.map fun h => s!" {h.tri} {showF h.t} {showV3 h.pos}"
    some (s!"{hs.length}" ++ String.join body, r.drop 6)
  | "wind" :: nS :: r => do
    let n ← nS.toNat?
    if r.length < 3 * n then none
    else
      let fs ← floats? (r.take (3 * n))
      let pts ← v3s? fs
      let bb := calcBBox m.vertPos.toList
      let ws := pts.toList.map fun p => pointWinding m bb p
      some (Drv.joinInt ws, r.drop (3 * n))
  | "slice" :: hS :: r => do
    let h ← parseF hS
    let res := slice m h
    let body := res.1.map fun lp =>
      s!" {lp.1.length}" ++ String.join (lp.1.map fun p => s!" {showF p.x} {showF p.y}")
    some ((if res.2 then "BAD" else "ok") ++ s!" {res.1.length}" ++ String.join body, r)
  | "gap" :: lS :: r => do
    let L ← parseF lS
    let o ← m2
    some (showF (minGapAll fsqrt m o L), r)
  | "counts" :: r =>
    let ts := trisOf m
    some (s!"{m.vertPos.size} {MV.Mesh.numEdge ts} {ts.length} {MV.Mesh.eulerGenus m.vertPos.size ts}", r)
  | _ => none

def runQueries (m : KMesh Float) (m2 : Option (KMesh Float)) :
    Nat → List String → List String → Option (List String)
  | _, [], acc => some acc.reverse
  | 0, _, _ => none
  | fuel + 1, ts, acc => do
    let (a, r) ← runQuery m m2 ts
    runQueries m m2 fuel r (a :: acc)

def tris? : List Nat → Option (List MV.Mesh.Tri)
  | [] => some []
  | a :: b :: c :: r => (tris? r).map ((a, b, c) :: ·)
  | _ => none

def handle (toks : List String) : String :=
  let r : Option String :=
    match toks with
    | "tritri" :: rest => do
      let fs ← floats? rest
      match fs with
      | [a0, a1, a2, b0, b1, b2, c0, c1, c2, d0, d1, d2, e0, e1, e2, f0, f1, f2] =>
        some (showF (triTriDist2 (⟨⟨a0, a1, a2⟩, ⟨b0, b1, b2⟩, ⟨c0, c1, c2⟩⟩ : Tri3 Float)
          ⟨⟨d0, d1, d2⟩, ⟨e0, e1, e2⟩, ⟨f0, f1, f2⟩⟩))
      | _ => none
    | "decomp" :: nvS :: ntS :: rest => do
      let nV ← nvS.toNat?
      let nT ← ntS.toNat?
      let ix ← Drv.nats? rest
      if ix.length != 3 * nT || !ix.all (· < nV) then none
      else
        let ts ← tris? ix
        match decompose nV ts with
        | none => some "fuel"
        | some (k, lab, _) => some (s!"{k} F " ++ Drv.joinNat (ts.map fun t => lab.getD t.1 0))
    | "M" :: _ => do
      let (m, r1) ← parseMesh toks
      match r1 with
      | "M" :: _ =>
        let (m2, r2) ← parseMesh r1
        match r2 with
        | "Q" :: qs => (runQueries m (some m2) qs.length qs []).map (" | ".intercalate ·)
        | _ => none
      | "Q" :: qs => (runQueries m none qs.length qs []).map (" | ".intercalate ·)
      | _ => none
    | _ => none
  r.getD "bad-op"

end MeasureDrv
