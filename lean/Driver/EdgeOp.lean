import MV.Model.EdgeOp
/-!
Line protocol for the edge-operation engine (first token `edgeop` already consumed by
`Driver/Main.lean`).  All numbers are decimal integers (may be negative).

  <op> <k> <k op-arguments> <nVert> <nPropVert> <n> <n start> <n paired> <n prop>

  op and its arguments (see /repo/src/edge_op.cpp and MV/Model/EdgeOp.lean)
    pairup          2  edge0 edge1
    updatevert      3  vert startEdge endEdge
    collapsetri     3  triEdge[0] triEdge[1] triEdge[2]
    removeiffolded  1  edge
    formloop        2  current end
    collapseedge    4+m  edge hasProp allowed m edges[0..m)     (allowed: every geometric guard passed)
    collapseedge2   3  edge hasProp allowed
    swapedge        2  edge hasProp
    dedupeedge      1  edge
    splitpinched    0
    check           0                                          (no operation)

  -> `ok <ret> <nVert> <nPropVert> <n'> | <start> | <paired> | <prop> | inv <b> orb <b>`
        ret = C++ return value (1/0; 1 for void operations); the three arrays after the model ran the
        operation; `inv` = `checkPairInv` (verified: checkPairInv_iff) and `orb` = `checkVertOrbit`
        (every vertex has one ForVert cycle) evaluated on that post-state
   | `bad oob`  (the model indexed an array outside its bounds: undefined behaviour in the C++)
   | `bad fuel` (a loop around a vertex did not close within size+1 steps)
  anything else -> `bad-op`
-/
namespace EdgeOpDrv
open MV.EdgeOp MV.Halfedge

def parseInts (toks : List String) : Option (Array Int) :=
  toks.toArray.mapM String.toInt?

def showInts (a : Array Int) : String :=
  " ".intercalate (a.toList.map toString)

def b2s (b : Bool) : String := if b then "1" else "0"

def showState (ret : Bool) (s : HE) : String :=
  s!"ok {b2s ret} {s.nVert} {s.nPropVert} {s.start.size} | {showInts s.start} | {showInts s.paired} | {showInts s.prop} | inv {b2s (checkPairInv s.start s.paired)} orb {b2s (checkVertOrbit s.start s.paired)}"

def showRes (r : Except HErr (HE × Bool)) : String :=
  match r with
  | .ok (s, ret) => showState ret s
  | .error .oob => "bad oob"
  | .error .fuel => "bad fuel"

def unit (r : Except HErr HE) : Except HErr (HE × Bool) := r.map fun s => (s, true)

def run (op : String) (a : Array Int) (s : HE) : Option (Except HErr (HE × Bool)) :=
  let flag (i : Nat) : Option Bool := if a[i]! = 1 then some true else if a[i]! = 0 then some false else none
  match op, a.size with
  | "pairup", 2 => some (unit (pairUp s a[0]! a[1]!))
  | "updatevert", 3 => some (unit (updateVert s a[0]! a[1]! a[2]!))
  | "collapsetri", 3 => some (unit (collapseTri s (a[0]!, a[1]!, a[2]!)))
  | "removeiffolded", 1 => some (unit (removeIfFolded s a[0]!))
  | "formloop", 2 => some (unit (formLoop s a[0]! a[1]!))
  | "collapseedge2", 3 => do
      let hp ← flag 1; let al ← flag 2
      some (collapseEdge2 s a[0]! al hp)
  | "swapedge", 2 => do
      let hp ← flag 1
      some (unit (swapEdge s a[0]! hp))
  | "dedupeedge", 1 => some (unit (dedupeEdge s a[0]!))
  | "splitpinched", 0 => some (unit (splitPinchedVerts s))
  | "check", 0 => some (.ok (s, true))
  | "collapseedge", k =>
      if k < 4 then none else
      if a[3]! < 0 || a[3]!.toNat + 4 != k then none else do
      let hp ← flag 1; let al ← flag 2
      some (collapseEdge s a[0]! (a.extract 4 k) al hp)
  | _, _ => none

def handle (toks : List String) : String :=
  match toks with
  | op :: rest =>
    match parseInts rest with
    | none => "bad-op"
    | some v =>
      if v.size < 1 || v[0]! < 0 then "bad-op" else
      let k := v[0]!.toNat
      if v.size < k + 4 then "bad-op" else
      let args := v.extract 1 (k + 1)
      let nVert := v[k + 1]!; let nProp := v[k + 2]!; let n := v[k + 3]!
      if nVert < 0 || nProp < 0 || n < 0 then "bad-op" else
      let n := n.toNat
      if v.size != k + 4 + 3 * n then "bad-op" else
      let s : HE := { start := v.extract (k + 4) (k + 4 + n), paired := v.extract (k + 4 + n) (k + 4 + 2 * n),
                      prop := v.extract (k + 4 + 2 * n) (k + 4 + 3 * n), nVert := nVert.toNat, nPropVert := nProp.toNat }
      match run op args s with
      | some r => showRes r
      | none => "bad-op"
  | _ => "bad-op"

end EdgeOpDrv
