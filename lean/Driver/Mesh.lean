import MV.Model.Mesh
import MV.Model.Halfedge
import MV.Model.HalfedgeGate
/-!
Line protocol for the mesh engine (first token `mesh` already consumed by `Driver/Main.lean`).

  check <nV> <nT> <3*nT indices>
      -> `ok genus <g> edges <E> verts <V>` (V = nV, after compaction for checkmerge)            (g = eulerGenus nV ts, E = numEdge ts = 3*nT/2)
       | `bad index-out-of-range <tri>` | `bad degenerate-triangle <tri>`
       | `bad duplicate-edge <a> <b>`   | `bad unmatched-edge <a> <b>`
       | `bad unreferenced-vertex <v>`
  checkmerge <nV> <nT> <3*nT indices> <nM> <nM mergeFrom> <nM mergeTo>
      -> same, for the triangle list read through the merge vectors.  Vertices listed in
         mergeFrom are exempt from the unreferenced-vertex clause, and those of them that are
         no longer referenced are compacted away before the genus is computed
         (g = eulerGenus nV' ts' with nV' = compactedVertCount).  Reported indices are the
         uncompacted ones.  A mergeFrom/mergeTo entry >= nV gives `bad merge-index-out-of-range <i>`
         (the importer's MergeIndexOutOfBounds).
  halfedges <nV> <nT> <3*nT indices>
      -> `start <3*nT ints> | paired <3*nT ints> | prop <3*nT ints>`   (the three arrays of
         `halfedge_` after `CreateHalfedges(triVerts)`, sorted-key path, serial build; removed
         halfedges show as -1 / -1 / 0)
       | `bad out-of-range-read` | `bad fuel`   (the model hit an out-of-bounds access, resp.
         a non-terminating loop; neither happens for balanced input)
         <nV> is only checked for being a number (the model is of the vertCount < 2^18 path).
  soup <nV> <nT> <3*nT indices>
      -> `start … | paired … | prop … | manifold <0|1>`   (C09b: `CreateHalfedges` on an ARBITRARY
         triangle soup followed by the checked `IsManifold()`; 1 = the constructor goes on, 0 =
         NotManifold) | `bad out-of-range-read` | `bad fuel` (a fault of a checked primitive in
         either function: never, by MV.C09b.createHalfedges_total_safe / isManifold_total_safe)
  anything else -> `bad-op`
-/
namespace Mesh
open MV.Mesh

def parseNats (toks : List String) : Option (Array Nat) :=
  toks.toArray.mapM String.toNat?

/-- triangles `a[off+3i .. off+3i+2]`, `i < n`, consed from the back (tail recursive) -/
def trisOf (a : Array Nat) (off : Nat) : Nat → List Tri → List Tri
  | 0, acc => acc
  | n + 1, acc => trisOf a off n ((a[off + 3 * n]!, a[off + 3 * n + 1]!, a[off + 3 * n + 2]!) :: acc)

def showErr : MeshErr → String
  | .indexOutOfRange t => s!"bad index-out-of-range {t}"
  | .degenerateTriangle t => s!"bad degenerate-triangle {t}"
  | .duplicateEdge a b => s!"bad duplicate-edge {a} {b}"
  | .unmatchedEdge a b => s!"bad unmatched-edge {a} {b}"
  | .unreferencedVertex v => s!"bad unreferenced-vertex {v}"

def showOk (nV : Nat) (ts : List Tri) : String :=
  s!"ok genus {eulerGenus nV ts} edges {numEdge ts} verts {nV}"

def handleCheck (a : Array Nat) : String :=
  if a.size < 2 then "bad-op" else
  let nV := a[0]!; let nT := a[1]!
  if a.size != 2 + 3 * nT then "bad-op" else
  let ts := trisOf a 2 nT []
  match checkMesh nV ts with
  | .ok () => showOk nV ts
  | .error e => showErr e

def handleCheckMerge (a : Array Nat) : String :=
  if a.size < 2 then "bad-op" else
  let nV := a[0]!; let nT := a[1]!
  if a.size < 3 + 3 * nT then "bad-op" else
  let nM := a[2 + 3 * nT]!
  if a.size != 3 + 3 * nT + 2 * nM then "bad-op" else
  let ts := trisOf a 2 nT []
  let mf := (a.extract (3 + 3 * nT) (3 + 3 * nT + nM)).toList
  let mt := (a.extract (3 + 3 * nT + nM) (3 + 3 * nT + 2 * nM)).toList
  match (mf ++ mt).findIdx? (fun v => decide (nV ≤ v)) with
  | some i => s!"bad merge-index-out-of-range {i % nM}"
  | none =>
  let isFrom : Array Bool := mf.foldl (fun m v => m.setIfInBounds v true) (Array.replicate nV false)
  let exempt : Nat → Bool := fun v => isFrom.getD v false
  let ts' := applyMerge mf mt ts
  match checkMeshEx nV exempt ts' with
  | .ok () => showOk (compactedVertCount nV exempt ts') ts'
  | .error e => showErr e

def showInts (a : Array Int) : String :=
  " ".intercalate (a.toList.map toString)

def handleHalfedges (a : Array Nat) : String :=
  if a.size < 2 then "bad-op" else
  let nT := a[1]!
  if a.size != 2 + 3 * nT then "bad-op" else
  let ts := trisOf a 2 nT []
  match MV.Halfedge.createHalfedges ts with
  | .ok o => s!"start {showInts o.start} | paired {showInts o.paired} | prop {showInts o.prop}"
  | .error .oob => "bad out-of-range-read"
  | .error .fuel => "bad fuel"

def handleSoup (a : Array Nat) : String :=
  if a.size < 2 then "bad-op" else
  let nT := a[1]!
  if a.size != 2 + 3 * nT then "bad-op" else
  let ts := trisOf a 2 nT []
  match MV.Halfedge.createHalfedges ts with
  | .ok o =>
    match MV.Halfedge.isManifold o with
    | .ok b => s!"start {showInts o.start} | paired {showInts o.paired} | prop {showInts o.prop} | manifold {if b then 1 else 0}"
    | .error .oob => "bad out-of-range-read"
    | .error .fuel => "bad fuel"
  | .error .oob => "bad out-of-range-read"
  | .error .fuel => "bad fuel"

def handle (toks : List String) : String :=
  match toks with
  | "check" :: rest => match parseNats rest with
      | some a => handleCheck a
      | none => "bad-op"
  | "checkmerge" :: rest => match parseNats rest with
      | some a => handleCheckMerge a
      | none => "bad-op"
  | "halfedges" :: rest => match parseNats rest with
      | some a => handleHalfedges a
      | none => "bad-op"
  | "soup" :: rest => match parseNats rest with
      | some a => handleSoup a
      | none => "bad-op"
  | _ => "bad-op"

end Mesh
