/-! shared parsing helpers for the line-protocol drivers (core Lean only) -/
namespace Drv

def splitOnTok (sep : String) (toks : List String) : List (List String) :=
  let rec go (cur : List String) (acc : List (List String)) : List String → List (List String)
    | [] => (cur.reverse :: acc).reverse
    | t :: ts => if t == sep then go [] (cur.reverse :: acc) ts else go (t :: cur) acc ts
  go [] [] toks

def nats? (ts : List String) : Option (List Nat) := ts.mapM String.toNat?
def ints? (ts : List String) : Option (List Int) := ts.mapM String.toInt?

def joinNat (xs : List Nat) : String := " ".intercalate (xs.map toString)
def joinInt (xs : List Int) : String := " ".intercalate (xs.map toString)

end Drv
