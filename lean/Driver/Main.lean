import Driver.Par
import Driver.Collider
import Driver.EarClip
import Driver.Mesh
import Driver.Csg
import Driver.Dsu
import Driver.HashT
import Driver.CBind
import Driver.Ctor
import Driver.Cow
import Driver.Sweep2
import Driver.Export
import Driver.Progress
import Driver.Bool3
import Driver.PropInterp
import Driver.Arrange2
import Driver.BoolAsm
import Driver.EdgeOp
import Driver.CsgBatch
import Driver.Ingest
import Driver.Partition
import Driver.Hull
import Driver.Sync
import Driver.Measure
import Driver.CrossOps
import Driver.PolyGeom
/-! `mvdriver`: reads one request per line on stdin, prints one answer per line.
First token = engine. -/

def dispatch (line : String) : String :=
  match line.trimAscii.toString.splitOn " " |>.filter (· ≠ "") with
  | "par" :: rest => ParDrv.handle rest
  | "collider" :: rest => Collider.handle rest
  | "earclip" :: rest => EarClip.handle rest
  | "mesh" :: rest => Mesh.handle rest
  | "csg" :: rest => Csg.handle rest
  | "dsu" :: rest => Dsu.handle rest
  | "hash" :: rest => HashT.handle rest
  | "cbind" :: rest => CBindDrv.handle rest
  | "ctor" :: rest => Ctor.handle rest
  | "cow" :: rest => Cow.handle rest
  | "sweep2" :: rest => Sweep2.handle rest
  | "export" :: rest => ExportDrv.handle rest
  | "progress" :: rest => ProgressDrv.handle rest
  | "bool3" :: rest => Bool3Drv.handle rest
  | "propinterp" :: rest => PropInterpDrv.handle rest
  | "arr2" :: rest => Arrange2.handle rest
  | "boolasm" :: rest => BoolAsmDrv.handle rest
  | "edgeop" :: rest => EdgeOpDrv.handle rest
  | "csgbatch" :: rest => CsgBatchDrv.handle rest
  | "ingest" :: rest => IngestDrv.handle rest
  | "partition" :: rest => PartitionDrv.handle rest
  | "hull" :: rest => HullDrv.handle rest
  | "sync" :: rest => SyncDrv.handle rest
  | "measure" :: rest => MeasureDrv.handle rest
  | "crossops" :: rest => CrossOpsDrv.handle rest
  | "polygeom" :: rest => PolyGeomDrv.handle rest
  | _ => "bad-engine"

partial def loop (h : IO.FS.Stream) (out : IO.FS.Stream) : IO Unit := do
  let line ← h.getLine
  if line.isEmpty then return ()
  out.putStrLn (dispatch line)
  loop h out

def main (_args : List String) : IO UInt32 := do
  let stdin ← IO.getStdin
  let stdout ← IO.getStdout
  loop stdin stdout
  stdout.flush
  return 0
