import MV.Model.Par
def main (_args : List String) : IO UInt32 := do
  IO.println "mvdriver"
  return 0
