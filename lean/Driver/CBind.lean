import MV.Model.CBindLifecycle
/-! engine `cbind` (property C20).

Protocol:  `cbind life <n> <op><id> <op><id> …`
  ops: `a` manifold_alloc_X, `b` caller buffer of manifold_X_size() bytes, `c` constructor wrapper (placement-new into it),
       `u` use, `d` manifold_destruct_X, `x` manifold_delete_X, `r` caller releases its buffer;  ids `0 … n-1`.
Answer: `accept clean` when the protocol automaton accepts the program, the concrete memory model runs it without a
fault, and at the end no object is live, no heap storage is held, ctors = dtors and allocs = frees for every object;
otherwise `accept leak …`, `reject <fault>`, `accept FAULT …` (would contradict `lifecycle_safe`) or `bad-op`. -/
namespace CBindDrv
open MV.CBind.Life

def parseOp (s : String) : Option (Op × Obj) :=
  match s.toList with
  | c :: rest =>
    match (String.ofList rest).toNat? with
    | none => none
    | some n =>
      match c with
      | 'a' => some (.alloc, n) | 'b' => some (.buffer, n) | 'c' => some (.construct, n) | 'u' => some (.use, n)
      | 'd' => some (.destruct, n) | 'x' => some (.delete, n) | 'r' => some (.release, n) | _ => none
  | [] => none

def handle (toks : List String) : String :=
  match toks with
  | "life" :: n :: ops =>
    match n.toNat?, ops.mapM parseOp with
    | some n, some p => if p.all (fun s => s.2 < n) then summary n p else "bad-op"
    | _, _ => "bad-op"
  | _ => "bad-op"

end CBindDrv
