import MV.Model.PropInterp
import Driver.Bool3
import Driver.Util
/-!
Line protocol for engine `propinterp` (property C07, interpolation half).  Floating-point values
travel as IEEE-754 bit patterns (16 lower-case hex digits); any NaN is `nan`.  The definitions run
are those of `MV/Model/PropInterp.lean` at `Float`.

  propinterp bary <tol> <v xyz> <t0 xyz> <t1 xyz> <t2 xyz>        -> <u> <v> <w>
  propinterp create <invertQ:0|1> <eps>
        S <numProp> <numPropVert> <nHe> <nVert> <nProps> <heProp * nHe> <heStart * nHe>
          <vertPos * 3 nVert> <props * nProps>                     (operand P)
        S …                                                        (operand Q)
        R <nVertR> <posR * 3 nVertR> <nTri> then per triangle: <v0> <v1> <v2> <pq> <face> <hasNormals>
          (v0 = -1: collapsed triangle)
     -> `none`  (numProp == 0 early return), or
        <missSize0> <missSize1> <oob> | <prop index per corner> | <uvw per corner (3 each)> | <rows, flat>
Malformed or out-of-range input -> `bad-op`.
-/
namespace PropInterpDrv
open MV.PropInterp Bool3Drv

def v3s (fs : List Float) : Option (Array (V3 Float)) :=
  let rec go : List Float → Array (V3 Float) → Option (Array (V3 Float))
    | [], acc => some acc
    | x :: y :: z :: r, acc => go r (acc.push ⟨x, y, z⟩)
    | _, _ => none
  go fs #[]

def showV (v : V3 Float) : String := showF v.x ++ " " ++ showF v.y ++ " " ++ showF v.z

def parseSrc (ts : List String) : Option (Src Float × List String) :=
  match ts with
  | "S" :: a :: b :: c :: d :: e :: rest => do
    let numProp ← a.toNat?
    let numPropVert ← b.toNat?
    let nHe ← c.toNat?
    let nVert ← d.toNat?
    let nProps ← e.toNat?
    if rest.length < 2 * nHe + 3 * nVert + nProps then none
    else
      let heProp ← Drv.nats? (rest.take nHe)
      let r1 := rest.drop nHe
      let heStart ← Drv.nats? (r1.take nHe)
      let r2 := r1.drop nHe
      let pos ← floats? (r2.take (3 * nVert)) >>= v3s
      let r3 := r2.drop (3 * nVert)
      let props ← floats? (r3.take nProps)
      some (⟨numProp, numPropVert, props.toArray, heProp.toArray, heStart.toArray, pos⟩, r3.drop nProps)
  | _ => none

def parseTris : List String → List RTri → Option (List RTri)
  | [], acc => some acc.reverse
  | a :: b :: c :: pq :: f :: hn :: r, acc => do
    let a ← a.toInt?
    let b ← b.toInt?
    let c ← c.toInt?
    let f ← f.toNat?
    let pq ← (if pq == "1" then some true else if pq == "0" then some false else none)
    let hn ← (if hn == "1" then some true else if hn == "0" then some false else none)
    let verts ← (if a < 0 then some none
      else if b < 0 || c < 0 then none else some (some (a.toNat, b.toNat, c.toNat)))
    parseTris r (⟨verts, pq, f, hn⟩ :: acc)
  | _, _ => none

def handleCreate (ts : List String) : Option String :=
  match ts with
  | inv :: epsS :: rest => do
    let invertQ ← (if inv == "1" then some true else if inv == "0" then some false else none)
    let eps ← parseF epsS
    let (P, r1) ← parseSrc rest
    let (Q, r2) ← parseSrc r1
    match r2 with
    | "R" :: nv :: r3 => do
      let nVertR ← nv.toNat?
      if r3.length < 3 * nVertR + 1 then none
      else
        let posR ← floats? (r3.take (3 * nVertR)) >>= v3s
        let r4 := r3.drop (3 * nVertR)
        let nTri ← (r4.head?).bind String.toNat?
        let tris ← parseTris (r4.drop 1) []
        if tris.length != nTri || !P.valid || !Q.valid || !(tris.all (RTri.valid P Q nVertR)) then none
        else
          match createProperties P Q invertQ posR eps tris with
          | none => some "none"
          | some st =>
            let corners := tris.flatMap (baryTri P Q posR eps)
            some (s!"{missSize P Q false} {missSize P Q true} {if st.oob then 1 else 0} | " ++
              Drv.joinNat st.out.toList ++ " | " ++
              " ".intercalate (corners.map fun c => showV c.uvw) ++ " | " ++
              " ".intercalate (st.rows.toList.flatMap fun r => r.map showF))
    | _ => none
  | _ => none

def handle (toks : List String) : String :=
  match toks with
  | "bary" :: rest =>
    match floats? rest with
    | some [tol, vx, vy, vz, ax, ay, az, bx, b_y, bz, cx, cy, cz] =>
      showV (getBarycentric ⟨vx, vy, vz⟩ ⟨ax, ay, az⟩ ⟨bx, b_y, bz⟩ ⟨cx, cy, cz⟩ tol)
    | _ => "bad-op"
  | "create" :: rest => (handleCreate rest).getD "bad-op"
  | _ => "bad-op"

end PropInterpDrv
