import MV.Model.Minkowski
import MV.Model.HullCheck
/-!
Line protocol for the `hull` engine (first token `hull` already consumed by `Driver/Main.lean`).

  plan <inset> <aConvex> <bConvex> <aEmpty> <bEmpty> <originInA> <originInB>        (each 0 or 1)
      -> `plan <swapped> <early> <base> <pieces> <subtract>`   = `(MV.Minkowski.dispatch f).code`
         early : 0 none, 1 copy of the first operand, 2 copy of the second (operands after the swap)
         base  : 0 nothing, 1 first operand, 2 first operand translated to the vertex mean of the second
         pieces: 0 none, 1 one hull of all vertex sums, 2 per-triangle hulls,
                 3..6 per-triangle-pair hulls (+1: copies of the second operand at the first's vertices,
                 +2: copies of the first at the second's vertices)
  check <n> <3n ints: input points> <nV> <3nV ints: output vertices> <nT> <3nT nats: output triangles>
      -> `rank <r> | empty`                                   the output has no vertices and no triangles
       | `rank 4 | ok genus <g> verts <V> tris <T> flat <F>`  `MV.Hull.checkHull` accepts (F zero-area triangles)
       | `rank 4 | bad <clause> …`                            it rejects: mesh <MeshErr words> |
                                                              vertex-not-input <v> | point-outside <tri> <pt>
       | `rank <r<4> | flat <0|1> verts <V> tris <T>`         non-empty output for a cloud without volume;
                                                              1 iff all its vertices are input points and
                                                              every input point is on every face plane
         r = `MV.Hull.affineRank` of the input (0 none, 1 point, 2 line, 3 plane, 4 volume)
  anything else -> `bad-op`
-/
namespace HullDrv
open MV.Hull MV.Mesh MV.Minkowski

def bit? : String → Option Bool
  | "0" => some false
  | "1" => some true
  | _ => none

def handlePlan (toks : List String) : String :=
  match toks.mapM bit? with
  | some bits =>
    match Flags.ofBits bits with
    | some f => "plan " ++ " ".intercalate ((dispatch f).code.map toString)
    | none => "bad-op"
  | none => "bad-op"

/-- points `a[off+3i ..]`, `i < n`, consed from the back -/
def ptsOf (a : Array Int) (off : Nat) : Nat → List P3 → List P3
  | 0, acc => acc
  | n + 1, acc => ptsOf a off n ((a[off + 3 * n]!, a[off + 3 * n + 1]!, a[off + 3 * n + 2]!) :: acc)

def trisOf (a : Array Int) (off : Nat) : Nat → List Tri → List Tri
  | 0, acc => acc
  | n + 1, acc =>
    trisOf a off n ((a[off + 3 * n]!.toNat, a[off + 3 * n + 1]!.toNat, a[off + 3 * n + 2]!.toNat) :: acc)

def showMeshErr : MeshErr → String
  | .indexOutOfRange t => s!"index-out-of-range {t}"
  | .degenerateTriangle t => s!"degenerate-triangle {t}"
  | .duplicateEdge a b => s!"duplicate-edge {a} {b}"
  | .unmatchedEdge a b => s!"unmatched-edge {a} {b}"
  | .unreferencedVertex v => s!"unreferenced-vertex {v}"

def showErr : HullErr → String
  | .mesh e => "mesh " ++ showMeshErr e
  | .vertexNotInput v => s!"vertex-not-input {v}"
  | .pointOutside t p => s!"point-outside {t} {p}"

def handleCheck (toks : List String) : String :=
  match toks.toArray.mapM String.toInt? with
  | none => "bad-op"
  | some a =>
    if a.size < 1 then "bad-op" else
    let n := a[0]!.toNat
    if a[0]! < 0 || a.size < 2 + 3 * n then "bad-op" else
    let nV := a[1 + 3 * n]!.toNat
    if a[1 + 3 * n]! < 0 || a.size < 3 + 3 * n + 3 * nV then "bad-op" else
    let nT := a[2 + 3 * n + 3 * nV]!.toNat
    if a[2 + 3 * n + 3 * nV]! < 0 || a.size != 3 + 3 * n + 3 * nV + 3 * nT then "bad-op" else
    let offT := 3 + 3 * n + 3 * nV
    if (List.range (3 * nT)).any (fun i => a[offT + i]! < 0) then "bad-op" else
    let pts := ptsOf a 1 n []
    let vs := (ptsOf a (2 + 3 * n) nV []).toArray
    let ts := trisOf a offT nT []
    let r := affineRank pts
    if nV == 0 && nT == 0 then s!"rank {r} | empty"
    else if r == 4 then
      match checkHull pts vs ts with
      | .ok () => s!"rank 4 | ok genus {eulerGenus nV ts} verts {nV} tris {nT} flat {flatCount vs ts}"
      | .error e => "rank 4 | bad " ++ showErr e
    else
      s!"rank {r} | flat {if flatOnInput pts vs ts then 1 else 0} verts {nV} tris {nT}"

def handle (toks : List String) : String :=
  match toks with
  | "plan" :: rest => handlePlan rest
  | "check" :: rest => handleCheck rest
  | _ => "bad-op"

end HullDrv
