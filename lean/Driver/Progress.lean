/-
Line protocol of the `progress` engine (model: MV/Model/Progress.lean, property C15).

Input: one line, tokens separated by single spaces; the first token `progress` is consumed by
Driver/Main.lean. `;` is a token of its own. All numbers are decimal naturals.

  seg <mode> { o <dP> <tP> <dB> <tB> }* end <c|u> <dP> <tP> <dB> <tB>  { ; seg … }*
      One `seg` per eager call made through ONE ExecutionContext, in call order.
      <mode> = tree | multi | fromMesh | smooth | levelSet
      `o` = the four counters (donePhases totalPhases doneBooleans totalBooleans) sampled at an
      `IsCancelled` check, in order (consecutive duplicates may be dropped); `end` = the counters after the
      call returned, `c` if its result had status Cancelled, `u` otherwise.
      → `ok` if `MV.Progress.progressMonitor` accepts (theorem `monitor_sound` says what that implies),
        else `bad <first reason>`.
  csg <term>
      <term> ::= L | N <add|int|sub> <collapse 0|1> <share: - | id> <k> <term>{k}
      The expression `GetCsgLeafNode(ctx)` is called on (`share id`: nodes whose `impl_` is one shared vector).
      → `<donePhases> <totalPhases> <doneBooleans> <totalBooleans>` after an uncancelled evaluation as the
        model predicts them for the code as it is now (generated `kPhasesPerBoolean`, `csgTopsUpOnCompletion`);
        `stuck` if the model evaluation pushes through a null destination.
  consts → the generated constants `kPhasesPerBoolean kPhasesPerFromMesh kPhasesPerSmooth kPhasesPerLevelSet`
Anything malformed → `bad-op`.
-/
import MV.Model.Progress

namespace ProgressDrv
open MV.Progress MV.Gen.Phases

def splitSemi (toks : List String) : List (List String) :=
  let rec go : List String → List String → List (List String) → List (List String)
    | [], cur, acc => (cur.reverse :: acc).reverse
    | t :: ts, cur, acc => if t == ";" then go ts [] (cur.reverse :: acc) else go ts (t :: cur) acc
  go toks [] []

def mode? : String → Option Mode
  | "tree" => some .tree
  | "multi" => some .multi
  | "fromMesh" => some .fromMesh
  | "smooth" => some .smooth
  | "levelSet" => some .levelSet
  | _ => none

def sample? (a b c d : String) : Option Sample := do
  let dP ← a.toNat?; let tP ← b.toNat?; let dB ← c.toNat?; let tB ← d.toNat?
  pure { dP, tP, dB, tB }

/-- `{ o a b c d }* end <c|u> a b c d` -/
def body? : List String → List Sample → Option (List Sample × Bool × Sample)
  | "o" :: a :: b :: c :: d :: rest, acc => do
    let s ← sample? a b c d
    body? rest (s :: acc)
  | ["end", cu, a, b, c, d], acc => do
    let s ← sample? a b c d
    let canc ← (match cu with | "c" => some true | "u" => some false | _ => none)
    pure (acc.reverse, canc, s)
  | _, _ => none

def segment? : List String → Option Segment
  | "seg" :: m :: rest => do
    let mode ← mode? m
    let (obs, cancelled, last) ← body? rest []
    pure { mode, obs, cancelled, last }
  | _ => none

def op? : String → Option Op
  | "add" => some .add
  | "int" => some .intersect
  | "sub" => some .subtract
  | _ => none

mutual
def term? : Nat → List String → Option (Csg × List String)
  | 0, _ => none
  | _ + 1, "L" :: rest => some (.leaf, rest)
  | fuel + 1, "N" :: o :: c :: sh :: k :: rest => do
    let op ← op? o
    let col ← (match c with | "0" => some false | "1" => some true | _ => none)
    let share ← (if sh == "-" then some none else sh.toNat?.map some)
    let n ← k.toNat?
    let (kids, rest') ← kids? fuel n rest
    pure (.node op col share kids, rest')
  | _ + 1, _ => none
def kids? : Nat → Nat → List String → Option (Kids × List String)
  | 0, _, _ => none
  | _ + 1, 0, toks => some (.nil, toks)
  | fuel + 1, n + 1, toks => do
    let (t, rest) ← term? fuel toks
    let (ks, rest') ← kids? fuel n rest
    pure (.cons t ks, rest')
end

def handle (toks : List String) : String :=
  match toks with
  | "csg" :: rest =>
    match term? (rest.length + 1) rest with
    | some (t, []) =>
      if t.wf then
        match csgFinalCounters kPhasesPerBoolean csgTopsUpOnCompletion [] t with
        | some (dP, tP, dB, tB) => s!"{dP} {tP} {dB} {tB}"
        | none => "stuck"
      else "bad-op"
    | _ => "bad-op"
  | ["consts"] => s!"{kPhasesPerBoolean} {kPhasesPerFromMesh} {kPhasesPerSmooth} {kPhasesPerLevelSet}"
  | "seg" :: _ =>
    match (splitSemi toks).mapM segment? with
    | some gs => monitorVerdict gs
    | none => "bad-op"
  | _ => "bad-op"

end ProgressDrv
