/-
Line protocol of the `dsu` engine (lock-step replay of /repo/src/disjoint_sets.h, model in
MV/Model/Dsu.lean).  One input line → one output line.  Tokens are separated by single spaces;
`;` and `,` are tokens of their own.  All numbers are decimal.

INPUT   dsu <n> ; <prog 0> ; <prog 1> ; ... ; <prog T-1> ; sched <e_0> <e_1> ...
  <n>        number of elements (`DisjointSets(n)`), mData[i] = i initially
  <prog t>   the operations thread t performs in order, separated by `,` tokens
               u <a> <b>     unite(a, b)
               f <a>         find(a)
               s <a> <b>     same(a, b)
             (an empty program is allowed: nothing between the two `;`).  All a, b < n.
  <e_k>      `<tid>`   thread tid performs its next atomic operation
             `<tid>!`  same, and the operation is a compare_exchange_weak that fails
                       spuriously (only legal when that operation is the path-halving CAS)
             `<tid>*`  thread tid runs alone until its program is finished (no spurious
                       failures; at most 1000000 steps, else bad-sched); every atomic
                       operation it performs is logged as usual
             The schedule may stop before the threads have finished.
  example    dsu 4 ; u 0 1 , f 3 ; u 1 2 ; sched 0 1 1! 0

OUTPUT  ok | log <entry>* | mem <w_0> ... <w_{n-1}> | res <T<tid> <ret>*>* | q <0|1> [| cc <k> <l_0> ... <l_{n-1}> | seq <s_0> ... <s_{n-1}>]
  <entry>    one per schedule entry, in order:
               L <tid> <idx> <val>                 load of mData[idx], val = word read
               C <tid> <idx> <exp> <des> <ok>      compare_exchange_strong on mData[idx]; ok ∈ {0,1}
               W <tid> <idx> <exp> <des> <ok>      compare_exchange_weak on mData[idx]
             words are printed packed as the C++ uint64: rank * 4294967296 + parent
  mem        final memory, packed words
  res        for every thread `T<tid>` followed by the return values of its completed
             operations in program order (unite/find: the returned id; same: 1/0)
  q          1 iff every thread has finished its program
  cc         only when q = 1: connectedComponents() run on the final memory:
             k = return value, l_i = components[i]
  seq        only when q = 1: the sequential reference partition of ALL unite pairs of all
             programs (thread 0's first, in program order): s_i = least element of the class
             of i.  (cc and seq induce the same partition: l_i = l_j iff s_i = s_j.)
ERRORS  bad-op                malformed line / index ≥ n
        bad-sched <k>         schedule entry k (0-based) names a missing or finished thread,
                              or carries `!` on a step that is not a compare_exchange_weak
-/
import MV.Model.Dsu

namespace Dsu
open MV.Dsu

/-- split a token list at every occurrence of `sep` -/
def splitAt (sep : String) (toks : List String) : List (List String) :=
  let (cur, acc) := toks.foldl
    (fun (st : List String × List (List String)) tk =>
      if tk = sep then ([], st.1.reverse :: st.2) else (tk :: st.1, st.2)) ([], [])
  (cur.reverse :: acc).reverse

def nat? (s : String) : Option Nat := if s.isEmpty then none else s.toNat?

def parseOp (n : Nat) : List String → Option Op
  | ["u", a, b] => do
    let a ← nat? a; let b ← nat? b
    if a < n ∧ b < n then some (.unite a b) else none
  | ["f", a] => do
    let a ← nat? a
    if a < n then some (.find a) else none
  | ["s", a, b] => do
    let a ← nat? a; let b ← nat? b
    if a < n ∧ b < n then some (.same a b) else none
  | _ => none

def parseProg (n : Nat) (toks : List String) : Option (List Op) :=
  if toks.isEmpty then some [] else (splitAt "," toks).mapM (parseOp n)

/-- schedule entry: `(tid, spurious, star)` -/
def parseEntry (s : String) : Option (Nat × Bool × Bool) :=
  if s.endsWith "!" then (nat? (s.dropEnd 1).toString).map (·, true, false)
  else if s.endsWith "*" then (nat? (s.dropEnd 1).toString).map (·, false, true)
  else (nat? s).map (·, false, false)

def joinNats (l : List Nat) : String := " ".intercalate (l.map toString)

def fmtLog (l : StepLog) : String :=
  match l.kind with
  | .load => s!"L {l.tid} {l.idx} {l.val}"
  | .cas => (if l.weak then "W" else "C") ++ s!" {l.tid} {l.idx} {l.exp} {l.des} {l.val}"
  | .idle => s!"X {l.tid}"

/-- `<tid>*`: run thread `tid` alone until it has finished (reversed log accumulated) -/
def runAlone (tid : Nat) : Nat → State → List StepLog → Option (State × List StepLog)
  | 0, _, _ => none
  | fuel + 1, s, acc =>
    match s.thr[tid]? with
    | none => none
    | some t =>
      if t.finished then some (s, acc) else
      let (s1, l) := step s tid false
      runAlone tid fuel s1 (l :: acc)

/-- run the schedule; `Except` position of the first illegal entry -/
def runChecked (s : State) (pos : Nat) :
    List (Nat × Bool × Bool) → Except Nat (State × List StepLog)
  | [] => .ok (s, [])
  | (tid, sp, star) :: rest =>
    if star then
      match runAlone tid 1000000 s [] with
      | none => .error pos
      | some (s1, acc) =>
        match runChecked s1 (pos + 1) rest with
        | .ok (s2, ls) => .ok (s2, acc.reverse ++ ls)
        | .error e => .error e
    else
    let (s1, l) := step s tid sp
    if l.kind = .idle ∨ (sp ∧ !l.weak) then .error pos else
    match runChecked s1 (pos + 1) rest with
    | .ok (s2, ls) => .ok (s2, l :: ls)
    | .error e => .error e

def handle (toks : List String) : String :=
  match splitAt ";" toks with
  | [nTok] :: groups =>
    match nat? nTok, groups.getLast?, groups.dropLast with
    | some n, some ("sched" :: schedToks), progToks =>
      match progToks.mapM (parseProg n), schedToks.mapM parseEntry with
      | some progs, some sched =>
        match runChecked (init n progs) 0 sched with
        | .error e => s!"bad-sched {e}"
        | .ok (s, log) =>
          let logS := " ".intercalate ("log" :: log.map fmtLog)
          let memS := " ".intercalate ("mem" :: s.mem.map fun w => toString w.pack)
          let resS := " ".intercalate ("res" ::
            (s.thr.zipIdx.map fun (t, i) => " ".intercalate (s!"T{i}" :: t.results.map toString)))
          let q := quiescent s
          let ccS := if q then
              let (k, labs) := connectedComponents s.mem
              " | " ++ " ".intercalate ("cc" :: toString k :: labs.map toString) ++
              " | " ++ " ".intercalate ("seq" ::
                (seqPartition n (progs.map unitePairs).flatten).map toString)
            else ""
          s!"ok | {logS} | {memS} | {resS} | q {if q then 1 else 0}{ccS}"
      | _, _ => "bad-op"
    | _, _, _ => "bad-op"
  | _ => "bad-op"

end Dsu
