import MV.Model.Sweep2
import Driver.Util
/-!
Line protocol for the 2-D Boolean models (engine name `sweep2`, already consumed by
`Driver/Main.lean`).  Integers are decimal; items are separated by the single token `;`.

  sweep2 inside <rule> <w>                          → 0 | 1                 (`isInside`)
  sweep2 boolop <op> <a> <b>                        → 0 | 1                 (`opInside`)
  sweep2 emit <rule> <fwd> <w0> <m1> … <mk>         → e1 … ek | -           (`emitFrom`; stored lex-forward signs, `-` when k = 0)
  sweep2 polyset <ax> <ay> <bx> <by> <m> ; …        → <lox> <loy> <hix> <hiy> <m> ; … | empty
                                                     (`ofEdges`; entries in map iteration order)
  sweep2 mergev <ax> <ay> <bx> <by> <m> ; …         → same listing           (`mergeVerticals1D (ofEdges …)`)
  sweep2 walk <x> <y> ; … | <v0> <v1> ; …           → closed <0|1> | v v v , v v v …   (`outEdgesToPolygons`, loops as vertex ids)
  sweep2 pixel <lo> <hi> <expr>                     → <count> <row lo> … <row hi-1>   (`pixelEval`; each row a 0/1 string, i = lo … hi-1)

  <rule> = add | intersect | evenodd        <op> = add | subtract | intersect      <fwd> = 0 | 1
  <expr> (prefix) = R x0 y0 x1 y1 | T dx dy <expr> | Q <expr> (rot +90°) | M <expr> (x ↦ −x)
                  | U <expr> <expr> | D <expr> <expr> | I <expr> <expr>
                  | BU n <expr>×n | BD n <expr>×n | BI n <expr>×n          (BatchBoolean)

Errors: `bad-op` for anything malformed (unknown sub-command or rule, non-numeric token, wrong
arity, vertex id out of range, trailing tokens, window wider than 256).
-/
namespace Sweep2
open MV.Sweep2

def parseRule : String → Option WindRule
  | "add" => some .add
  | "intersect" => some .intersect
  | "evenodd" => some .evenOdd
  | _ => none

def parseOp : String → Option OpType
  | "add" => some .add
  | "subtract" => some .subtract
  | "intersect" => some .intersect
  | _ => none

def parseInt (s : String) : Option Int :=
  if s.isEmpty || s.length > 20 then none else s.toInt?

def parseInts (ts : List String) : Option (List Int) := ts.mapM parseInt

def b01 (b : Bool) : String := if b then "1" else "0"

def parseEdge : List String → Option DEdge
  | [ax, ay, bx, by_, m] => do
    let ax ← parseInt ax; let ay ← parseInt ay; let bx ← parseInt bx; let by_ ← parseInt by_
    let m ← parseInt m
    pure ((ax, ay), (bx, by_), m)
  | _ => none

def parseEdges (toks : List String) : Option (List DEdge) :=
  if toks.isEmpty then some [] else (Drv.splitOnTok ";" toks).mapM parseEdge

def fmtPolySet (ps : PolySet) : String :=
  if ps.isEmpty then "empty"
  else " ; ".intercalate (ps.map fun e =>
    s!"{e.1.1.1} {e.1.1.2} {e.1.2.1} {e.1.2.2} {e.2}")

/-- prefix parser with explicit fuel (the number of tokens) -/
def parseExpr : Nat → List String → Option (Expr × List String)
  | 0, _ => none
  | fuel + 1, toks =>
    match toks with
    | "R" :: a :: b :: c :: d :: rest => do
      let a ← parseInt a; let b ← parseInt b; let c ← parseInt c; let d ← parseInt d
      pure (.rect a b c d, rest)
    | "T" :: dx :: dy :: rest => do
      let dx ← parseInt dx; let dy ← parseInt dy
      let (e, rest) ← parseExpr fuel rest
      pure (.translate dx dy e, rest)
    | "Q" :: rest => do
      let (e, rest) ← parseExpr fuel rest
      pure (.rot90 e, rest)
    | "M" :: rest => do
      let (e, rest) ← parseExpr fuel rest
      pure (.mirrorX e, rest)
    | "U" :: rest => bin fuel .add rest
    | "D" :: rest => bin fuel .subtract rest
    | "I" :: rest => bin fuel .intersect rest
    | "BU" :: n :: rest => batch fuel .add n rest
    | "BD" :: n :: rest => batch fuel .subtract n rest
    | "BI" :: n :: rest => batch fuel .intersect n rest
    | _ => none
where
  bin (fuel : Nat) (op : OpType) (rest : List String) : Option (Expr × List String) := do
    let (a, rest) ← parseExpr fuel rest
    let (b, rest) ← parseExpr fuel rest
    pure (.bin op a b, rest)
  batch (fuel : Nat) (op : OpType) (n : String) (rest : List String) : Option (Expr × List String) := do
    let n ← n.toNat?
    if n > 64 then none else
    let rec go (k : Nat) (rest : List String) (acc : List Expr) : Option (List Expr × List String) :=
      match k with
      | 0 => some (acc.reverse, rest)
      | k + 1 => do
        let (e, rest) ← parseExpr fuel rest
        go k rest (e :: acc)
    let (es, rest) ← go n rest []
    pure (.batch op es, rest)

def pixelRows (lo hi : Int) (e : Expr) : Nat × List String :=
  let n := (hi - lo).toNat
  let rows := (List.range n).map fun (dj : Nat) =>
    (List.range n).map fun (di : Nat) => pixelIn e (lo + (di : Int)) (lo + (dj : Int))
  (rows.foldl (fun c r => c + r.countP id) 0, rows.map fun r => String.ofList (r.map fun b => if b then '1' else '0'))

def handleWalk (toks : List String) : String :=
  match Drv.splitOnTok "|" toks with
  | [vt, et] =>
    let vs := if vt.isEmpty then some [] else (Drv.splitOnTok ";" vt).mapM fun t =>
      match t with
      | [x, y] => do let x ← parseInt x; let y ← parseInt y; pure ((x, y) : Pt)
      | _ => none
    let es := if et.isEmpty then some [] else (Drv.splitOnTok ";" et).mapM fun t =>
      match t with
      | [a, b] => do let a ← a.toNat?; let b ← b.toNat?; pure (a, b)
      | _ => none
    match vs, es with
    | some vs, some es =>
      if es.any (fun e => e.1 ≥ vs.length || e.2 ≥ vs.length) then "bad-op" else
      let (loops, closed) := outEdgesToPolygons vs es
      s!"closed {b01 closed} | " ++ " , ".intercalate (loops.map Drv.joinNat)
    | _, _ => "bad-op"
  | _ => "bad-op"

def handle (toks : List String) : String :=
  match toks with
  | ["inside", r, w] =>
    match parseRule r, parseInt w with
    | some r, some w => b01 (isInside r w)
    | _, _ => "bad-op"
  | ["boolop", op, a, b] =>
    match parseOp op, parseInt a, parseInt b with
    | some op, some a, some b => b01 (opInside op a b)
    | _, _, _ => "bad-op"
  | "emit" :: r :: fwd :: w0 :: ms =>
    match parseRule r, parseInt w0, parseInts ms with
    | some r, some w0, some ms =>
      if fwd != "0" && fwd != "1" then "bad-op"
      else if ms.isEmpty then "-"
      else Drv.joinInt (emitFrom r (fwd == "1") w0 ms)
    | _, _, _ => "bad-op"
  | "polyset" :: rest =>
    match parseEdges rest with
    | some es => fmtPolySet (ofEdges es)
    | none => "bad-op"
  | "mergev" :: rest =>
    match parseEdges rest with
    | some es => fmtPolySet (mergeVerticals1D (ofEdges es))
    | none => "bad-op"
  | "walk" :: rest => handleWalk rest
  | "pixel" :: lo :: hi :: rest =>
    match parseInt lo, parseInt hi with
    | some lo, some hi =>
      if hi < lo || hi - lo > 256 then "bad-op" else
      match parseExpr (rest.length + 1) rest with
      | some (e, []) =>
        let (c, rows) := pixelRows lo hi e
        s!"{c} " ++ " ".intercalate rows
      | _ => "bad-op"
    | _, _ => "bad-op"
  | _ => "bad-op"

end Sweep2
