/-
Line protocol of the `hash` engine (model: MV/Model/HashT.lean, C++: /repo/src/hashtable.h).

INPUT (one line; every token separated by ONE space; `;` and `,` are tokens themselves):

  hash <logSize> <step> <hashkind> ; <ops of thread 0> ; <ops of thread 1> ; ... ; sched <tid> <tid> ...

  <logSize>   decimal, 0..20; table size = 2^logSize
  <step>      decimal, < 2^32; the `step_` constructor argument
  <hashkind>  `id`  : H(k) = k          (the model masks with size)
              `h64` : H = hash64bit     (utils.h)
  <ops>       ops of one thread separated by the token `,`; each op is
                i <key> <val>     Insert(key, val)
                g <key>           operator[](key), result dereferenced
              keys, vals decimal, < 2^64.  An empty op list (`; ;`) is a thread without ops.
              At least one thread segment is required.
  sched ...   the LAST segment; decimal thread ids, one per atomic step, in execution
              order.  `sched` alone = empty schedule.

  The first token `hash` is consumed by Driver/Main.lean; `handle` gets the rest.

OUTPUT (one line), fields separated by ` | `:

  <log> | keys k0 k1 ... | vals v0 v1 ... | used n | res <r> ... ; <r> ... ; ... | q <0|1>[ | look <key> <found> <idx> <val> ...]

  <log>   one entry per schedule element, space separated (empty schedule: the word `-`):
            U <tid> <val>               used_.load() in Full() read <val>
            C <tid> <idx> <key> <found> compare_exchange_strong(keys_[idx], kOpen, key) found <found>
            A <tid> <old>               used_.fetch_add(1) returned <old>
            S <tid> <idx> <val>         values_[idx] = val
            K <tid> <idx> <val>         AtomicLoad(keys_[idx]) read <val>
            V <tid> <idx> <val>         values_[idx] read <val>
  res     per thread (threads separated by the token `;`), one entry per COMPLETED op
          (a thread with no completed op prints the word `-`):
            F               Insert returned because Full()
            I <idx>         Insert claimed slot idx and stored its value
            P <idx>         Insert found its key in slot idx
            G <hit> <idx> <val>   operator[] ended at slot idx (hit=1: key seen, 0: kOpen seen), read val
  q       1 iff every thread has completed all its ops
  look    only if q = 1: for every distinct key of an `i` op (order of first appearance,
          thread 0 first) the sequential lookup: `<key> 1 <idx> <val>` or `<key> 0 0 0`.

ERRORS (whole output line):
  bad-op               malformed input of any kind
  bad-sched <pos>      schedule element number <pos> (0-based) names a thread that does not
                       exist or has already completed all its ops
-/
import MV.Model.HashT

namespace HashT
open MV.HashT

def splitOnTok (sep : String) : List String → List (List String)
  | [] => [[]]
  | t :: ts =>
      match splitOnTok sep ts with
      | [] => [[t]]   -- unreachable
      | seg :: segs => if t = sep then [] :: seg :: segs else (t :: seg) :: segs

def parseNat (bound : Nat) (s : String) : Option Nat :=
  match s.toNat? with
  | some n => if n < bound then some n else none
  | none => none

def parseOp : List String → Option Op
  | ["i", k, v] => do
      let k ← parseNat (2 ^ 64) k
      let v ← parseNat (2 ^ 64) v
      pure (.ins k v)
  | ["g", k] => do
      let k ← parseNat (2 ^ 64) k
      pure (.get k)
  | _ => none

def parseProg (toks : List String) : Option (List Op) :=
  if toks.isEmpty then some [] else (splitOnTok "," toks).mapM parseOp

def fmtLog (l : StepLog) : String :=
  match l.kind with
  | .uload => s!"U {l.tid} {l.a}"
  | .kcas => s!"C {l.tid} {l.index} {l.a} {l.b}"
  | .fadd => s!"A {l.tid} {l.a}"
  | .vstore => s!"S {l.tid} {l.index} {l.a}"
  | .kload => s!"K {l.tid} {l.index} {l.a}"
  | .vload => s!"V {l.tid} {l.index} {l.a}"
  | .idle => s!"X {l.tid}"

def fmtRes : Res → String
  | .full => "F"
  | .inserted i => s!"I {i}"
  | .present i => s!"P {i}"
  | .got h i v => s!"G {h} {i} {v}"

def fmtNats (l : List Nat) : String := " ".intercalate (l.map toString)

/-- run the schedule, refusing entries that name a nonexistent or finished thread -/
def runChecked (cfg : Cfg) : State → List Nat → Nat → List StepLog → Except Nat (State × List StepLog)
  | s, [], _, acc => .ok (s, acc.reverse)
  | s, tid :: rest, pos, acc =>
      match s.thr[tid]? with
      | none => .error pos
      | some t =>
          if t.finished then .error pos
          else
            let r := step cfg s tid
            runChecked cfg r.1 rest (pos + 1) (r.2 :: acc)

def insKeys (progs : List (List Op)) : List Nat :=
  (progs.flatten.filterMap fun op => match op with | .ins k _ => some k | .get _ => none).eraseDups

def handle (toks : List String) : String :=
  match splitOnTok ";" toks with
  | [ls, st, hk] :: segs =>
      match parseNat 21 ls, parseNat (2 ^ 32) st, segs.reverse with
      | some logSize, some stepP, ("sched" :: schedToks) :: progSegsRev =>
          let h? : Option (Nat → Nat) :=
            if hk = "id" then some (fun k => k) else if hk = "h64" then some hashNat else none
          match h?, progSegsRev.reverse.mapM parseProg, schedToks.mapM (parseNat (2 ^ 32)) with
          | some h, some progs, some sched =>
              if progs.isEmpty then "bad-op" else
              let cfg : Cfg := ⟨logSize, stepP, h⟩
              match runChecked cfg (init cfg progs) sched 0 [] with
              | .error pos => s!"bad-sched {pos}"
              | .ok (s, logs) =>
                  let logStr := if logs.isEmpty then "-" else " ".intercalate (logs.map fmtLog)
                  let resStr := " ; ".intercalate
                    (s.thr.map fun t =>
                      if t.results.isEmpty then "-" else " ".intercalate (t.results.map fmtRes))
                  let q := quiescent s
                  let look :=
                    if q then
                      " | look" ++ String.join ((insKeys progs).map fun k =>
                        match lookup cfg s.keys s.vals k with
                        | some (i, v) => s!" {k} 1 {i} {v}"
                        | none => s!" {k} 0 0 0")
                    else ""
                  s!"{logStr} | keys {fmtNats s.keys} | vals {fmtNats s.vals} | used {s.used} | res {resStr} | q {if q then 1 else 0}{look}"
          | _, _, _ => "bad-op"
      | _, _, _ => "bad-op"
  | _ => "bad-op"

end HashT
