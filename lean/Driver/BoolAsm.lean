import MV.Model.BoolAssembly
import Driver.Util
/-!
Line protocol for engine `boolasm` (property C02, assembly of the Boolean result; model
`MV/Model/BoolAssembly.lean`).  All tokens are decimal integers (after the operation word).
`edgePos` values travel as the order-preserving integer image of the double (harness:
`bits < 0 ? ~bits ^ sign… `, see harness/c02_assembly.cpp `keyOf`).

  boolasm pairup <n> (<key> <vert> <collisionId> <isStart>)*n
      -> <pre:0|1> <k> (<startVert> <endVert>)*k        `PairUp` on that vector; pre = its two DEBUG_ASSERTs
  boolasm united <nH> (<start> <pair>)*nH <k> <brokenHalfedge>*k
      -> <m> (<start> <end>)*m                           the unite() calls of Winding03_, index order
  boolasm winding <n> <k> (<a> <b>)*k <rootOf>*n <seed>*n
      -> ok <w03>*n | bad-roots                          flood fill; bad-roots: `rootOf` is not a system of
                                                         representatives of the components of the k edges
  boolasm asm <op:0 add|1 subtract|2 intersect> <nHP> (<start> <pair>)* <nHQ> (<start> <pair>)*
          <nVP> <w03>* <nVQ> <w30>* <n12> (<edgeP> <faceQ> <x12>)* <n21> (<faceP> <edgeQ> <x21>)*
          <nLists> (<len> <key>*len)*
      -> FE <faceEdge>* | F2R <facePQ2R>* | L <nLists> (<len> (<key> <vert> <cid> <isStart>)*)*
         | PTR <facePtrR>* | HE <n> (<start> <end> <paired>)* | over <#slots written twice or out of range>
         unwritten <#slots never written> badkeys <#oracle lists missing/too many/of the wrong length>
      (an unwritten slot prints as `-1 -1 -1`)
Malformed input -> `bad-op`.
-/
namespace BoolAsmDrv
open MV.BoolAsm MV.Bool3

abbrev P := StateT (List Int) Option

def next : P Int := do
  match (← get) with
  | [] => failure
  | x :: r => set r; pure x

def nat : P Nat := do
  let x ← next
  if x < 0 then failure else pure x.toNat

def takeN (n : Nat) : P (List Int) := do
  let s ← get
  if s.length < n then failure
  set (s.drop n); pure (s.take n)

def natsN (n : Nat) : P (List Nat) := do
  let xs ← takeN n
  if xs.any (· < 0) then failure else pure (xs.map Int.toNat)

def pairs (xs : List Int) : List (Int × Int) :=
  match xs with
  | a :: b :: r => (a, b) :: pairs r
  | _ => []

def triples (xs : List Int) : List (Int × Int × Int) :=
  match xs with
  | a :: b :: c :: r => (a, b, c) :: triples r
  | _ => []

def mesh : P Mesh := do
  let nH ← nat
  let xs ← takeN (2 * nH)
  let ps := pairs xs
  pure ⟨(ps.map (·.1)).toArray, (ps.map (·.2)).toArray⟩

def edgePosList (n : Nat) : P (List EdgePos) := do
  let xs ← takeN (4 * n)
  let rec go : List Int → Option (List EdgePos)
    | k :: v :: c :: s :: r =>
      if v < 0 ∨ (s ≠ 0 ∧ s ≠ 1) then none else (go r).map (⟨k, v.toNat, c, s = 1⟩ :: ·)
    | [] => some []
    | _ => none
  match go xs with
  | some l => pure l
  | none => failure

def showEP (e : EdgePos) : String := s!"{e.key} {e.vert} {e.cid} {if e.isStart then 1 else 0}"

def coll : P (List (Nat × Nat × Int)) := do
  let n ← nat
  let xs ← takeN (3 * n)
  let ts := triples xs
  if ts.any (fun t => t.1 < 0 ∨ t.2.1 < 0) then failure
  pure (ts.map fun t => (t.1.toNat, t.2.1.toNat, t.2.2))

def keyLists : P (List (List Int)) := do
  let n ← nat
  let rec go : Nat → P (List (List Int))
    | 0 => pure []
    | k + 1 => do
      let len ← nat
      let l ← takeN len
      let r ← go k
      pure (l :: r)
  go n

def opOf : Int → Option OpType
  | 0 => some .add
  | 1 => some .subtract
  | 2 => some .intersect
  | _ => none

def runP {α : Type} (p : P α) (toks : List String) : Option α := do
  let xs ← Drv.ints? toks
  let (a, rest) ← p.run xs
  if rest.isEmpty then some a else none

def doPairup : P String := do
  let n ← nat
  let es ← edgePosList n
  let ps := pairUp es
  pure s!"{if pairUpPre es then 1 else 0} {ps.length} {Drv.joinNat (ps.flatMap fun p => [p.1, p.2])}".trimAsciiEnd.toString

def doUnited : P String := do
  let m ← mesh
  let k ← nat
  let br ← natsN k
  let u := unitedEdges m br
  pure s!"{u.length} {Drv.joinInt (u.flatMap fun p => [p.1, p.2])}".trimAsciiEnd.toString

def doWinding : P String := do
  let n ← nat
  let k ← nat
  let es ← natsN (2 * k)
  let edges := (pairs (es.map Int.ofNat)).map fun p => (p.1.toNat, p.2.toNat)
  let rootOf ← natsN n
  let seed ← takeN n
  if rootsOk n edges rootOf then pure s!"ok {Drv.joinInt (winding03 rootOf seed)}".trimAsciiEnd.toString
  else pure "bad-roots"

def doAsm : P String := do
  let op ← next
  let some op := opOf op | failure
  let mP ← mesh
  let mQ ← mesh
  let nVP ← nat
  let w03 ← takeN nVP
  let nVQ ← nat
  let w30 ← takeN nVQ
  let x12 ← coll
  let x21raw ← coll
  let keys ← keyLists
  let r := assemble ⟨op, mP, mQ, w03, w30, x12, x21raw, keys⟩
  let total := r.faceEdge.getLastD 0
  let (arr, over) := applyLog total r.log
  let unwritten := arr.toList.countP (·.isNone)
  let he := arr.toList.map fun
    | some h => s!"{h.start} {h.endV} {h.pair}"
    | none => "-1 -1 -1"
  let ls := r.lists.map fun l => s!"{l.length} {" ".intercalate (l.map showEP)}".trimAsciiEnd.toString
  pure (s!"FE {Drv.joinNat r.faceEdge} | F2R {Drv.joinNat r.facePQ2R} | " ++
    s!"{" ".intercalate (s!"L {r.lists.length}" :: ls)} | PTR {Drv.joinNat r.ptr} | {" ".intercalate (s!"HE {total}" :: he)} | " ++
    s!"over {over} unwritten {unwritten} badkeys {r.bad}")

def handle (toks : List String) : String :=
  let r := match toks with
    | "pairup" :: rest => runP doPairup rest
    | "united" :: rest => runP doUnited rest
    | "winding" :: rest => runP doWinding rest
    | "asm" :: rest => runP doAsm rest
    | _ => none
  r.getD "bad-op"

end BoolAsmDrv
