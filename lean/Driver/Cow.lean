import MV.Model.Cow
/-
Line protocol for the copy-on-write monitor (engine name `cow`), property C05.

One whole event stream per line.  Every event is exactly five tokens

    <kind> <h> <o> <b> <rc>

as recorded by the MANIFOLD_VERIF hook `onVecEvent` of `Vec<T,true>` (src/vec.h); handles and
buffers are the small integers the harness assigned (buffers: 0,1,2,… in order of allocation,
which is also how the model numbers them); unused fields are 0; <rc> is the value read from the
real atomic counter (an integer: garbage read from freed memory may be negative).

    kind  C++                                            model event        real-code annotation checked
    a     constructor / assign that `new`s a counter     alloc h 0          buffer of h is b, count 1
    c     copy-ctor or MakeUnique's deep copy of o       clone o h          buffer of h is b, count 1
    s     operator=(const Vec&): h := o                  share o h          buffer of h is b, count rc
    m     move ctor / move assign: h takes o's buffer    move o h           buffer of h is b, count rc
    f     dealloc(): h drops its reference               free h             buffer of h WAS b, count now rc
    w     element write through h                        write h 0 1        buffer of h is b, count rc
    r     structural change through h (AssertUnique)     resize h 0         buffer of h is b, count rc
    u     MakeUnique(h) returning                        makeUnique h       buffer of h is b, count rc = 1

Each event is first submitted to the monitor `MV.Cow.accept` in the current model state, then
executed by `MV.Cow.step`; then the real code's buffer identity and reference count are
compared with the model's (`rc_counts_handles` says the model's count is the number of live
handles, so this is "the real counter counts the real handles").

Output: `accepted`, or `rejected <index> <kind> <why>` for the first offending event:
    monitor:<reason>       accept = false  (reason: dead-handle | live-handle | shared-write rc=<n>)
    buffer model=<x> real=<b>
    rc model=<n> real=<rc>
Malformed input: `bad-op`.
-/
namespace Cow
open MV.Cow

structure Ann where
  kind : String
  h : Nat
  o : Nat
  b : Nat
  rc : Int

def parse1 (k h o b rc : String) : Option Ann :=
  match h.toNat?, o.toNat?, b.toNat?, rc.toInt? with
  | some h, some o, some b, some rc => some ⟨k, h, o, b, rc⟩
  | _, _, _, _ => none

def toEvent (a : Ann) : Option Event :=
  match a.kind with
  | "a" => some (.alloc a.h 0)
  | "c" => some (.clone a.o a.h)
  | "s" => some (.share a.o a.h)
  | "m" => some (.move a.o a.h)
  | "f" => some (.free a.h)
  | "w" => some (.write a.h 0 1)
  | "r" => some (.resize a.h 0)
  | "u" => some (.makeUnique a.h)
  | _ => none

def why (s : State) : Event → String
  | .alloc _ _ => "live-handle"
  | .share h _ | .clone h _ | .move h _ => if live s h then "live-handle" else "dead-handle"
  | .makeUnique _ | .free _ => "dead-handle"
  | .write h _ _ | .resize h _ => if live s h then s!"shared-write rc={rcH s h}" else "dead-handle"

/-- verdict for one parsed event in state `s`: the next state, or the rejection text -/
def check1 (s : State) (i : Nat) (a : Ann) : Except String State :=
  match toEvent a with
  | none => .error "bad-op"
  | some e =>
    if !accept s e then .error s!"rejected {i} {a.kind} monitor:{why s e}"
    else
      let s' := step s e
      -- the buffer the event is about: for `free` the one h pointed at BEFORE
      let mb := if a.kind == "f" then bufOf s a.h else bufOf s' a.h
      match mb with
      | none => .error s!"rejected {i} {a.kind} buffer model=none real={a.b}"
      | some b =>
        if b != a.b then .error s!"rejected {i} {a.kind} buffer model={b} real={a.b}"
        else
          let want : Int := if a.kind == "a" || a.kind == "c" then 1 else a.rc
          if (rcOf s' b : Int) != want then .error s!"rejected {i} {a.kind} rc model={rcOf s' b} real={want}"
          else if a.kind == "u" && rcOf s' b != 1 then .error s!"rejected {i} u rc model={rcOf s' b} real={a.rc}"
          else .ok s'

/-- tail-recursive over the token list (streams of 10^6 events are normal) -/
def go (s : State) (i : Nat) : List String → String
  | [] => "accepted"
  | k :: h :: o :: b :: rc :: rest =>
    match parse1 k h o b rc with
    | none => "bad-op"
    | some a =>
      match check1 s i a with
      | .error msg => msg
      | .ok s' => go s' (i + 1) rest
  | _ => "bad-op"

def handle (toks : List String) : String := go {} 0 toks

end Cow
