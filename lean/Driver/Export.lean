import MV.Model.Export
import MV.Model.MeshIds
import Driver.Util
/-!
Line protocol for the export engine (first token `export` already consumed by `Driver/Main.lean`).
Sections are separated by the token `|`.  All numbers decimal; payloads (IEEE bit patterns of
transforms, 64-bit content hashes of positions / property rows / tangents) are opaque naturals.

  all <isOriginal 0|1> <hasProp 0|1> | <4*nT ints: meshID originalID faceID coplanarID per internal triangle>
      | <15*nR ints: key originalID flags t0 … t11 per entry of meshIDtransform, ascending key>
      | <6*nT nats: halfedge_.Start, halfedge_.Prop per internal halfedge 3*tri+i>
      | <nV nats: payload of vertPos_[v]> | <nP nats: payload of property row p>
      | <0 or 3*nT nats: payload of halfedgeTangent_[h]>
    -> `runIndex … | runOriginalID … | runFlags … | runTransform … | faceID … | triVerts …
        | vertPos … | vertProp … | mergeFrom … | mergeTo … | tangent …`
       = the fields of `GetMeshGL64(impl)` (FIXED exporter, patches/fix_C08_tangents.diff):
       runOriginalID as uint32, faceID as uint64, runTransform as 12 payloads per run (empty for an
       original), vertPos/vertProp = payload of the position / property row copied into output
       vertex i (vertProp is 0 for every vertex when hasProp = 0).
       | `bad run-cover` if the vertex loop `for run, for tri in run` would not visit 0..nT-1
         (cannot happen: theorem `MV.C07.runs_partition`)
  allpinned …   same with the PINNED tangent export (internal order) — for diagnosis only
  roundtrip <startID> <numExtraProp> | refs | rel        (sections as in `all`, non-original)
    -> `runIndex … | runOriginalID … | runFlags … | runTransform … | faceID … | new2old …`
       of `exportRuns(importRuns(exportRuns(refs, rel)))` (cf. theorem `MV.C08.reexport_eq`)
  increment <next> | rel | refs  -> `keys … | meshIDs …`   (`IncrementMeshIDs`)
  anything else -> `bad-op`
-/
namespace ExportDrv
open MV.Export

abbrev Pay := List Nat

def idT : Pay := [4607182418800017408, 0, 0, 0, 4607182418800017408, 0, 0, 0, 4607182418800017408, 0, 0, 0]

def u32 (x : Int) : Nat := (x % 4294967296).toNat
def u64 (x : Int) : Nat := (x % 18446744073709551616).toNat

def chunk (k : Nat) (a : Array α) : Option (List (List α)) :=
  if k = 0 ∨ a.size % k ≠ 0 then none
  else some ((List.range (a.size / k)).map fun i => (a.extract (k * i) (k * i + k)).toList)

def parseRefs (ts : List String) : Option (List TriRef) := do
  let a ← Drv.ints? ts
  let cs ← chunk 4 a.toArray
  cs.mapM fun c => match c with
    | [a, b, c, d] => some ⟨a, b, c, d⟩
    | _ => none

def parseRel (ts : List String) : Option (RelMap Pay) := do
  let a ← Drv.ints? ts
  let cs ← chunk 15 a.toArray
  let m ← cs.mapM fun c => match c with
    | k :: o :: f :: t =>
      if f < 0 ∨ 3 < f ∨ t.any (· < 0) then none
      else some (k, (⟨o, t.map Int.toNat, f.toNat % 2 == 1, f.toNat / 2 == 1⟩ : Rel Pay))
    | _ => none
  -- std::map iterates in ascending key order: insist on it
  if (m.map (·.1)).zip ((m.map (·.1)).drop 1) |>.all (fun ab => decide (ab.1 < ab.2)) then some m else none

def parseHe (ts : List String) : Option (Array (Nat × Nat)) := do
  let a ← Drv.nats? ts
  let cs ← chunk 2 a.toArray
  let l ← cs.mapM fun c => match c with
    | [s, p] => some (s, p)
    | _ => none
  some l.toArray

def joinPay (xs : List Pay) : String := Drv.joinNat xs.flatten

def showRuns (rt : RunTable Pay) : String :=
  s!"{Drv.joinNat rt.runIndex} | {Drv.joinNat (rt.runOriginalID.map u32)} | {Drv.joinNat rt.runFlags} | {joinPay rt.runTransform} | {Drv.joinNat (rt.faceID.map u64)}"

def handleAll (pinned : Bool) (hdr : List String) (secs : List (List String)) : String :=
  match hdr, secs with
  | [io, hp], [sRefs, sRel, sHe, sHv, sHp, sTg] =>
    match io.toNat?, hp.toNat?, parseRefs sRefs, parseRel sRel, parseHe sHe, Drv.nats? sHv, Drv.nats? sHp, Drv.nats? sTg with
    | some io, some hp, some refs, some rel, some he, some hv, some hpay, some tg =>
      if io > 1 ∨ hp > 1 ∨ he.size ≠ 3 * refs.length ∨ (tg.length ≠ 0 ∧ tg.length ≠ 3 * refs.length) then "bad-op" else
      let rt := exportRuns (io == 1) idT refs rel
      if runOrder rt.runIndex != List.range refs.length then "bad run-cover" else
      let corners := cornersOf he rt.triNew2Old
      let hvA := hv.toArray; let hpA := hpay.toArray
      let tgOut := if pinned then exportTangentsPinned tg.toArray rt.triNew2Old else exportTangentsFixed 0 tg.toArray rt.triNew2Old
      if hp == 1 then
        let s := exportVerts hv.length corners
        let vp := s.out.toList.map fun o => hvA.getD o.1 0
        let pp := s.out.toList.map fun o => hpA.getD o.2 0
        s!"{showRuns rt} | {Drv.joinNat s.triVerts.toList} | {Drv.joinNat vp} | {Drv.joinNat pp} | {Drv.joinNat s.mergeFrom.toList} | {Drv.joinNat s.mergeTo.toList} | {Drv.joinNat tgOut}"
      else
        s!"{showRuns rt} | {Drv.joinNat (exportVertsNoProp corners)} | {Drv.joinNat hv} | {Drv.joinNat (hv.map fun _ => 0)} |  |  | {Drv.joinNat tgOut}"
    | _, _, _, _, _, _, _, _ => "bad-op"
  | _, _ => "bad-op"

def handleRoundtrip (hdr : List String) (secs : List (List String)) : String :=
  match hdr, secs with
  | [sid, nx], [sRefs, sRel] =>
    match sid.toInt?, nx.toNat?, parseRefs sRefs, parseRel sRel with
    | some sid, some nx, some refs, some rel =>
      let rt := exportRuns false idT refs rel
      let imp := importRuns idT sid nx (ImportIn.ofExport rt)
      let rt2 := exportRuns false idT imp.1 imp.2
      s!"{showRuns rt2} | {Drv.joinNat rt2.triNew2Old}"
    | _, _, _, _ => "bad-op"
  | _, _ => "bad-op"

def handleIncrement (hdr : List String) (secs : List (List String)) : String :=
  match hdr, secs with
  | [nx], [sRel, sRefs] =>
    match nx.toInt?, parseRel sRel, parseRefs sRefs with
    | some nx, some rel, some refs =>
      let r := incrementMeshIDs rel refs nx
      s!"{Drv.joinInt (RelMap.keys r.1)} | {Drv.joinInt (r.2.map (·.meshID))}"
    | _, _, _ => "bad-op"
  | _, _ => "bad-op"

def handle (toks : List String) : String :=
  match toks with
  | op :: rest =>
    match Drv.splitOnTok "|" rest with
    | hdr :: secs =>
      if op == "all" then handleAll false hdr secs
      else if op == "allpinned" then handleAll true hdr secs
      else if op == "roundtrip" then handleRoundtrip hdr secs
      else if op == "increment" then handleIncrement hdr secs
      else "bad-op"
    | [] => "bad-op"
  | [] => "bad-op"

end ExportDrv
