import MV.Model.Extrude
import MV.Model.Ctor
import MV.Model.Mesh
import Driver.Util
/-!
Line protocol for the constructor models of property C17 (engine `ctor`, already consumed by
`Driver/Main.lean`).  All numbers are decimal; `Int` arguments may carry a leading `-`.

  ctor extrude <nPolys> <size>*nPolys <nDivisions> <isCone 0|1> <nTop> <3*nTop cap indices>
      -> `nv <vertPos.size()> | capnet <ok|bad> | mesh <ok|bad…> | tris <a b c>*`
         capnet: the cap satisfies the hypothesis of `extrude_closed` (net top = contours, indices
         < nCrossSection); mesh: verdict of the verified checker on the model's own output;
         tris: every triangle rotated to start with its smallest index, list sorted (`canonTris`).
  ctor revolve <nPolys> (<len> <0|1>*len)*nPolys <nDivisions> <isFull 0|1> <nFront> <3*nFront cap indices>
      -> same; a `1` marks a polygon vertex with x > 0, `0` a vertex on the axis.
  ctor sind <k>                          -> `<sind(90k)> <cosd(90k)>` of the quadrant model (`quo = k mod 8`)
  ctor segments <circ> <nSegA> <nSegL>   -> `GetCircularSegments`
  ctor setseg <cur> <number>             -> `circularSegments_` after `SetCircularSegments(number)`
  ctor numtri cylinder <segArg> <circ> <nSegA> <nSegL> <isCone 0|1> -> NumTri of `Cylinder`
  ctor numtri sphere <segArg> <circ> <nSegA> <nSegL>               -> NumTri of `Sphere`
  ctor invalid cube <c> <c> <c> | cylinder <h> <rLow> <rHigh> | sphere <r> | extrude <nPolys> <h> <nDivisions>
             | revolve <degrees> <0|1>*   -> `ok` | `invalid`   (c ∈ n z p x: negative, zero, positive, NaN;
                                          revolve: per polygon, 1 iff it has a vertex with !(x < 0))
  ctor grid <x> <y> <z> <w> <nx> <ny> <nz>
      -> `<px> <py> <pz> <EncodeIndex> <DecodeIndex of it: x y z w>` with `pow = ComputeGridPow(n)`
  ctor rot90 <ka> <kb> <kc> <x y z>*     -> the integer points rotated by `Rotate(90ka, 90kb, 90kc)`, sorted
  anything else -> `bad-op`
-/
namespace Ctor
open MV.Extrude MV.Ctor MV.EarClip

def takeN (n : Nat) (xs : List Nat) : Option (List Nat × List Nat) :=
  if xs.length < n then none else some (xs.take n, xs.drop n)

def trisOfFlat : List Nat → Option (List Tri)
  | [] => some []
  | a :: b :: c :: rest => (trisOfFlat rest).map ((a, b, c) :: ·)
  | _ => none

def fmtTris (ts : List Tri) : String :=
  " ".intercalate (ts.map fun t => s!"{t.1} {t.2.1} {t.2.2}")

def meshVerdict (nV : Nat) (ts : List Tri) : String :=
  match MV.Mesh.checkMesh nV ts with
  | .ok () => "ok"
  | .error (.indexOutOfRange t) => s!"bad-index-out-of-range-{t}"
  | .error (.degenerateTriangle t) => s!"bad-degenerate-triangle-{t}"
  | .error (.duplicateEdge a b) => s!"bad-duplicate-edge-{a}-{b}"
  | .error (.unmatchedEdge a b) => s!"bad-unmatched-edge-{a}-{b}"
  | .error (.unreferencedVertex v) => s!"bad-unreferenced-vertex-{v}"

def answer (nV : Nat) (capOk : Bool) (ts : List Tri) : String :=
  s!"nv {nV} | capnet {if capOk then "ok" else "bad"} | mesh {meshVerdict nV ts} | tris {fmtTris (canonTris ts)}"

def capOk (conts : List (List Nat)) (nC : Nat) (cap : List Tri) : Bool :=
  netEqCheck (triEdges cap) (contourEdges conts) &&
    cap.all fun t => decide (t.1 < nC) && decide (t.2.1 < nC) && decide (t.2.2 < nC)

def handleExtrude (xs : List Nat) : String :=
  match xs with
  | nP :: rest =>
    match takeN nP rest with
    | some (sizes, nDiv :: cone :: nTop :: flat) =>
      if cone > 1 || flat.length != 3 * nTop then "bad-op" else
      match trisOfFlat flat with
      | none => "bad-op"
      | some top =>
        let isCone := cone == 1
        answer (extrudeNumVert sizes nDiv isCone) (capOk (contours sizes) sizes.sum top)
          (extrudeTris sizes nDiv isCone top)
    | _ => "bad-op"
  | _ => "bad-op"

def parsePolys : Nat → List Nat → Option (List (List Bool) × List Nat)
  | 0, rest => some ([], rest)
  | n + 1, len :: rest =>
    match takeN len rest with
    | some (bits, rest') =>
      if bits.any (· > 1) then none else
      (parsePolys n rest').map fun (ps, r) => (bits.map (· == 1) :: ps, r)
    | none => none
  | _, _ => none

def handleRevolve (xs : List Nat) : String :=
  match xs with
  | nP :: rest =>
    match parsePolys nP rest with
    | some (polys, nDiv :: full :: nF :: flat) =>
      if full > 1 || flat.length != 3 * nF || nDiv == 0 then "bad-op" else
      match trisOfFlat flat with
      | none => "bad-op"
      | some front =>
        let isFull := full == 1
        answer (revolveNumVert polys nDiv isFull)
          (capOk (revolveContours polys) (polys.map List.length).sum front)
          (revolveTris polys nDiv isFull front)
    | _ => "bad-op"
  | _ => "bad-op"

def sgn? : String → Option Sgn
  | "n" => some .neg | "z" => some .zero | "p" => some .pos | "x" => some .nan | _ => none

def showStatus : Status → String | .ok => "ok" | .invalid => "invalid"

def handleInvalid : List String → String
  | ["cube", a, b, c] => match sgn? a, sgn? b, sgn? c with
    | some a, some b, some c => showStatus (cubeStatus a b c) | _, _, _ => "bad-op"
  | ["cylinder", a, b, c] => match sgn? a, sgn? b, sgn? c with
    | some a, some b, some c => showStatus (cylinderStatus a b c) | _, _, _ => "bad-op"
  | ["sphere", a] => match sgn? a with | some a => showStatus (sphereStatus a) | _ => "bad-op"
  | ["extrude", n, h, d] => match n.toNat?, sgn? h, sgn? d with
    | some n, some h, some d => showStatus (extrudeStatus n h d) | _, _, _ => "bad-op"
  | "revolve" :: deg :: bits => match sgn? deg, Drv.nats? bits with
    | some deg, some bs => if bs.any (· > 1) then "bad-op" else showStatus (revolveStatus deg (bs.map (· == 1)))
    | _, _ => "bad-op"
  | _ => "bad-op"

def pts3 : List Int → Option (List (Int × Int × Int))
  | [] => some []
  | a :: b :: c :: rest => (pts3 rest).map ((a, b, c) :: ·)
  | _ => none

def ptLe (a b : Int × Int × Int) : Bool :=
  a.1 < b.1 || (a.1 == b.1 && (a.2.1 < b.2.1 || (a.2.1 == b.2.1 && a.2.2 ≤ b.2.2)))

def handleRot90 (xs : List Int) : String :=
  match xs with
  | ka :: kb :: kc :: rest =>
    match pts3 rest with
    | some ps =>
      let qs := (ps.map (rotQuarter ka kb kc)).mergeSort ptLe
      " ".intercalate (qs.map fun q => s!"{q.1} {q.2.1} {q.2.2}")
    | none => "bad-op"
  | _ => "bad-op"

def handle (toks : List String) : String :=
  match toks with
  | "rot90" :: rest => match Drv.ints? rest with | some xs => handleRot90 xs | none => "bad-op"
  | "extrude" :: rest => match Drv.nats? rest with | some xs => handleExtrude xs | none => "bad-op"
  | "revolve" :: rest => match Drv.nats? rest with | some xs => handleRevolve xs | none => "bad-op"
  | ["sind", k] => match k.toInt? with
    | some k => s!"{sindQ 0 1 (· % 8) k} {cosdQ 0 1 (· % 8) k}"
    | none => "bad-op"
  | ["segments", c, a, l] => match c.toNat?, a.toNat?, l.toNat? with
    | some c, some a, some l => toString (segments c a l) | _, _, _ => "bad-op"
  | ["setseg", c, n] => match c.toInt?, n.toInt? with
    | some c, some n => toString (setCircularSegments c n) | _, _ => "bad-op"
  | ["numtri", "cylinder", s, c, a, l, cone] => match s.toInt?, c.toNat?, a.toNat?, l.toNat?, cone.toNat? with
    | some s, some c, some a, some l, some cone =>
      if cone > 1 then "bad-op" else toString (cylinderNumTri (cylinderSegments s c a l) (cone == 1))
    | _, _, _, _, _ => "bad-op"
  | ["numtri", "sphere", s, c, a, l] => match s.toInt?, c.toNat?, a.toNat?, l.toNat? with
    | some s, some c, some a, some l => toString (sphereNumTri (sphereN s c a l))
    | _, _, _, _ => "bad-op"
  | "invalid" :: rest => handleInvalid rest
  | "grid" :: rest => match Drv.nats? rest with
    | some [x, y, z, w, nx, ny, nz] =>
      let px := gridPow nx; let py := gridPow ny; let pz := gridPow nz
      let e := encodeIndex x y z w py pz
      let d := decodeIndex e px py pz
      s!"{px} {py} {pz} {e} {d.1} {d.2.1} {d.2.2.1} {d.2.2.2}"
    | _ => "bad-op"
  | _ => "bad-op"

end Ctor
