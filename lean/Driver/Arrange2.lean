import MV.Model.Arrange2
import Driver.Util
import Std.Data.HashMap
/-!
Line protocol for the sweep event/status machine (engine name `arr2`, already consumed by
`Driver/Main.lean`).  All numbers are decimal integers (coordinates are ranks); sections are separated by
the token `|`, items inside a section by `;`.

  arr2 run <mode> <rule> <fuel> | <seeds> | <Y> | <G> | <X>
     <mode>  = arr | wind            <rule> = add | intersect | evenodd
     <seeds> = ax ay bx by m ; …                      the `Seed(a, b, m)` calls in order
     <Y>     = lox loy hix hiy px py s ; …            oracle: sign of `YAtX(lo,hi,p.x) − p.y` (s ∈ {-1,0,1}; 2 = unordered)
     <G>     = alx aly arx ary blx bly brx bry s ; …  oracle: sign of `cross(ar − al, br − bl)`
     <X>     = alx aly arx ary blx bly brx bry qx qy ; …   oracle: the crossing constructed by `TestPair` (pairs without
                                                       an entry: no crossing)
  answer (one line):
     <ahead 0|1> <drained 0|1> <nEvents> # <event> # … # out <polyset> # merged <polyset>
     <event> = px py : lo hi k : <cls digits, one per old status edge> : <seq of the status after insertion> :
               <i j of every TestPair call> : <a.seq b.seq of every pair past the index guard> :
               <seq lx ly rx ry m of the status at exit> : <events_.size()> <pending edge count>
     (an empty list is `-`; <polyset> as for `sweep2 polyset`)

A key that is missing from an oracle table answers 0 / 0 / no crossing; the recorded run supplies every
call the real code made, so a model that asks anything else shows up as a different answer.
Errors: `bad-op`.
-/
namespace Arrange2
open MV.Sweep2 MV.Arr2

abbrev K6 := Int × Int × Int × Int × Int × Int
abbrev K8 := Int × Int × Int × Int × Int × Int × Int × Int

def parseInt (s : String) : Option Int :=
  if s.isEmpty || s.length > 20 then none else s.toInt?

def section? (toks : List String) (arity : Nat) : Option (List (List Int)) :=
  if toks.isEmpty then some []
  else (Drv.splitOnTok ";" toks).mapM fun t =>
    if t.length ≠ arity then none else t.mapM parseInt

def mkOracle (ys gs xs : List (List Int)) : Option Oracle := do
  let mut ym : Std.HashMap K6 Int := {}
  for y in ys do
    match y with
    | [a, b, c, d, e, f, s] => ym := ym.insert (a, b, c, d, e, f) s
    | _ => none
  let mut gm : Std.HashMap K8 Int := {}
  for g in gs do
    match g with
    | [a, b, c, d, e, f, g', h, s] => gm := gm.insert (a, b, c, d, e, f, g', h) s
    | _ => none
  let mut xm : Std.HashMap K8 Pt := {}
  for x in xs do
    match x with
    | [a, b, c, d, e, f, g', h, qx, qy] => xm := xm.insert (a, b, c, d, e, f, g', h) (qx, qy)
    | _ => none
  pure {
    ycmp := fun lo hi p => (ym.get? (lo.1, lo.2, hi.1, hi.2, p.1, p.2)).getD 0
    crossSign := fun al ar bl br => (gm.get? (al.1, al.2, ar.1, ar.2, bl.1, bl.2, br.1, br.2)).getD 0
    crossing := fun al ar bl br => xm.get? (al.1, al.2, ar.1, ar.2, bl.1, bl.2, br.1, br.2) }

def dash (xs : List String) : String := if xs.isEmpty then "-" else " ".intercalate xs

def fmtPolySet (ps : PolySet) : String :=
  if ps.isEmpty then "empty"
  else " ; ".intercalate (ps.map fun e =>
    s!"{e.1.1.1} {e.1.1.2} {e.1.2.1} {e.1.2.2} {e.2}")

def fmtEvent (o : Oracle) (mode : Mode) (rule : WindRule) (x : Pt × St × St) : String :=
  let p := x.1
  let st0 := x.2.1
  let st1 := x.2.2
  let pr := prepare o mode rule st0 p
  let calls := if mode = .arrangement then adjacencyTests pr.lo pr.k pr.removedAny else []
  let tested := st1.tested.drop st0.tested.length
  s!"{p.1} {p.2} : {pr.lo} {pr.hi} {pr.k} : " ++
    (if pr.cls.isEmpty then "-" else String.join (pr.cls.map fun c => toString c.toNat)) ++ " : " ++
    dash (pr.mid.status.map fun e => toString e.seq) ++ " : " ++
    dash (calls.map fun c => s!"{c.1} {c.2}") ++ " : " ++
    dash (tested.map fun c => s!"{c.1} {c.2}") ++ " : " ++
    dash (st1.status.map fun e => s!"{e.seq} {e.l.1} {e.l.2} {e.r.1} {e.r.2} {e.m}") ++ " : " ++
    s!"{st1.events.length} {pendCount st1.pending}"

def handle (toks : List String) : String :=
  match Drv.splitOnTok "|" toks with
  | [["run", mode, rule, fuel], seeds, ys, gs, xs] =>
    let mode? : Option Mode := match mode with | "arr" => some .arrangement | "wind" => some .winding | _ => none
    let rule? : Option WindRule := match rule with
      | "add" => some .add | "intersect" => some .intersect | "evenodd" => some .evenOdd | _ => none
    match mode?, rule?, fuel.toNat?, section? seeds 5, section? ys 7, section? gs 9, section? xs 10 with
    | some mode, some rule, some fuel, some seeds, some ys, some gs, some xs =>
      if fuel > 100000 then "bad-op" else
      match mkOracle ys gs xs with
      | none => "bad-op"
      | some o =>
        let es : List DEdge := seeds.filterMap fun
          | [ax, ay, bx, by_, m] => some ((ax, ay), (bx, by_), m)
          | _ => none
        let st := seedAll es
        let tr := runStates o mode rule fuel st
        let fin := finalState st tr
        let b := fun (x : Bool) => if x then "1" else "0"
        let head := s!"{b fin.ahead} {b (fin.events.isEmpty && fin.status.isEmpty && fin.pending.isEmpty)} {tr.length}"
        " # ".intercalate ([head] ++ tr.map (fmtEvent o mode rule) ++
          ["out " ++ fmtPolySet fin.out, "merged " ++ fmtPolySet (mergeVerticals1D fin.out)])
    | _, _, _, _, _, _, _ => "bad-op"
  | _ => "bad-op"

end Arrange2
