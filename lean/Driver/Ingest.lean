import MV.Model.Ingest
import Driver.Util
/-!
Line protocol of the C09 models (engine `ingest`, already consumed by `Driver/Main.lean`).
All numbers decimal.

  <shape> := <numProp> <vertProperties.size()> <vertFinite 0|1>
             <n> <n triVerts> <n> <n mergeFromVert> <n> <n mergeToVert> <n> <n runIndex>
             <runOriginalID.size()> <runTransform.size()> <transformFinite 0|1>
             <faceID.size()> <halfedgeTangent.size()> <tangentFinite 0|1>

  ingest ctor <fixed|pinned> <shape>
      -> `st <Status() as int> kept <triangles handed to CreateHalfedges>`
       | `fault <kind> <source line>`   (kind oob|div0|uninit: the model of that tree reaches an
                                          unchecked access; never for `fixed`, by ingest_total_safe)
       | `st 99 …` the CreateHalfedges model reported an out-of-range access
  ingest merge <fixed|pinned> <shape>
      -> `rejected` (guard of patch 04: returns false, mesh untouched) | `run` | `fault <kind> <line>`
  ingest prog <term>      term := L <code> | U <ownCode> term | B term term | P term term
      -> the statuses the program may report, sorted, space separated
  ingest chan <idx> <width> <limit>      -> `ok` | `bad`
  ingest levelset <edge> <boundsFinite 0|1> <d0> <d1> <d2> <big0> <big1> <big2>
      (classes n=NaN a=-inf m=negative z=zero p=positive b=+inf) -> `<Status as int>` of the guard (0 = proceeds)
  anything else -> `bad-op`
-/
namespace IngestDrv
open MV.Ingest

def takeVec (xs : List Nat) : Option (Array Nat × List Nat) :=
  match xs with
  | [] => none
  | n :: rest => if rest.length < n then none else some ((rest.take n).toArray, rest.drop n)

def bit? : Nat → Option Bool
  | 0 => some false
  | 1 => some true
  | _ => none

def parseShape (xs : List Nat) : Option MeshShape := do
  match xs with
  | numProp :: nVP :: vf :: rest =>
    let vf ← bit? vf
    let (tv, rest) ← takeVec rest
    let (mf, rest) ← takeVec rest
    let (mt, rest) ← takeVec rest
    let (ri, rest) ← takeVec rest
    match rest with
    | [nRunID, nRT, tf, nFace, nTan, tanf] =>
      let tf ← bit? tf
      let tanf ← bit? tanf
      some { numProp := numProp, nVertProp := nVP, vertFinite := vf, triVerts := tv, mergeFrom := mf,
             mergeTo := mt, runIndex := ri, nRunID := nRunID, nRunTransform := nRT, transformFinite := tf,
             nFaceID := nFace, nTangent := nTan, tangentFinite := tanf }
    | _ => none
  | _ => none

def guards? : String → Option Guards
  | "fixed" => some Guards.fixed
  | "pinned" => some Guards.pinned
  | _ => none

def showFault : Fault → String
  | .oob l => s!"fault oob {l}"
  | .divZero l => s!"fault div0 {l}"
  | .uninit l => s!"fault uninit {l}"

def handleCtor (g : Guards) (s : MeshShape) : String :=
  match ingest g s with
  | .err e => s!"st {e.code} kept 0"
  | .fault f => showFault f
  | .ok r =>
    match isManifoldKept r.kept with
    | some true => s!"st {tailCode r.kept} kept {r.kept.triVert.size}"
    | some false => s!"st 2 kept {r.kept.triVert.size}"
    | none => s!"st 99 kept {r.kept.triVert.size}"

def handleMerge (g : Guards) (s : MeshShape) : String :=
  match mergeRun (g == Guards.fixed) g s with
  | .ok false => "rejected"
  | .ok true => "run"
  | .err e => s!"st {e.code}"
  | .fault f => showFault f

def errOfCode : Nat → Option Err
  | 0 => some .noError | 1 => some .nonFiniteVertex | 2 => some .notManifold | 3 => some .vertexOutOfBounds
  | 4 => some .propertiesWrongLength | 5 => some .missingPositionProperties
  | 6 => some .mergeVectorsDifferentLengths | 7 => some .mergeIndexOutOfBounds
  | 8 => some .transformWrongLength | 9 => some .runIndexWrongLength | 10 => some .faceIDWrongLength
  | 11 => some .invalidConstruction | 12 => some .resultTooLarge | 13 => some .invalidTangents
  | 14 => some .cancelled | _ => none

/-- prefix term parser with fuel = number of tokens -/
def parseProg : Nat → List String → Option (Prog × List String)
  | 0, _ => none
  | fuel + 1, toks =>
    match toks with
    | "L" :: c :: rest => do
      let e ← errOfCode (← c.toNat?)
      some (.leaf e, rest)
    | "U" :: c :: rest => do
      let e ← errOfCode (← c.toNat?)
      let (p, rest) ← parseProg fuel rest
      some (.un e p, rest)
    | "B" :: rest => do
      let (a, rest) ← parseProg fuel rest
      let (b, rest) ← parseProg fuel rest
      some (.bin a b, rest)
    | "P" :: rest => do
      let (a, rest) ← parseProg fuel rest
      let (b, rest) ← parseProg fuel rest
      some (.par a b, rest)
    | _ => none

def insertSorted (x : Nat) : List Nat → List Nat
  | [] => [x]
  | y :: ys => if x < y then x :: y :: ys else if x == y then y :: ys else y :: insertSorted x ys

def fc? : String → Option FC
  | "n" => some .nan | "a" => some .negInf | "m" => some .neg | "z" => some .zero
  | "p" => some .pos | "b" => some .posInf | _ => none

def handle (toks : List String) : String :=
  match toks with
  | "ctor" :: v :: rest =>
    match guards? v, Drv.nats? rest with
    | some g, some xs => match parseShape xs with
      | some s => handleCtor g s
      | none => "bad-op"
    | _, _ => "bad-op"
  | "merge" :: v :: rest =>
    match guards? v, Drv.nats? rest with
    | some g, some xs => match parseShape xs with
      | some s => handleMerge g s
      | none => "bad-op"
    | _, _ => "bad-op"
  | "prog" :: rest =>
    match parseProg (rest.length + 1) rest with
    | some (p, []) => Drv.joinNat ((p.stati.map Err.code).foldr insertSorted [])
    | _ => "bad-op"
  | ["chan", idx, w, lim] =>
    match idx.toInt?, w.toNat?, lim.toNat? with
    | some i, some w, some l => if channelOk i w l then "ok" else "bad"
    | _, _, _ => "bad-op"
  | ["levelset", e, bf, d0, d1, d2, b0, b1, b2] =>
    match fc? e, bf.toNat? >>= bit?, [d0, d1, d2].mapM fc?, [b0, b1, b2].mapM (fun t => t.toNat? >>= bit?) with
    | some e, some bf, some ds, some bs =>
      match levelSetGuard e bf ds bs with
      | some err => toString err.code
      | none => "0"
    | _, _, _, _ => "bad-op"
  | _ => "bad-op"

end IngestDrv
